(* CopyProofs.v — C08: bulk copy (World.v: copy_default, br_copy_to, bw_copy_from) moves exactly
   n bits and leaves both streams intact.
   Part 1: the L0 specification spec_copy and the generic chunked loop on the L0 primitives.
   Part 2: the generic loop between ANY reader / writer that simulate the spec (abstract relations).
   Part 3: the buffered reader's optimised copy_to into any such writer.
   Part 4: the buffered writer's optimised copy_from out of any such reader.
   Part 5: instances (L0 reader/writer, L2 buffered reader/writer), corollaries, examples. *)
From Coq Require Import ZifyBool ZifyNat ZifyN.
From DSI Require Import Base Words Prog Writer Reader Abs World BitFacts BitsLemmas WriterProofs
  BitsLemmasR ReaderProofs.
Ltac Zify.zify_post_hook ::= Z.div_mod_to_equations.
Open Scope N_scope.
Arguments N.add : simpl never.
Arguments N.sub : simpl never.
Arguments N.mul : simpl never.
Arguments N.div : simpl never.
Arguments N.modulo : simpl never.
Arguments N.pow : simpl never.
Arguments N.eqb : simpl never.
Arguments N.ltb : simpl never.
Arguments N.leb : simpl never.
Arguments N.min : simpl never.
Arguments N.testbit : simpl never.
Arguments N.of_nat : simpl never.
Arguments N.to_nat : simpl never.

(* ------------------------------------------------------------------ the next n bits of a stream *)
(* the n bits of the (zero-extended) stream l from position pos on *)
Definition nxt (l : bits) (pos n : N) : bits := take_pad (N.to_nat n) (skipn (N.to_nat pos) l).

Lemma take_pad_add a b : forall l, take_pad (a + b) l = take_pad a l ++ take_pad b (skipn a l).
Proof.
  induction a as [| a IH]; intros l; [reflexivity |].
  cbn [Nat.add take_pad]. destruct l as [| x r]; cbn [skipn app]; f_equal.
  - rewrite IH, skipn_nil. reflexivity.
  - apply IH.
Qed.

Lemma firstn_add {A} a b : forall (l : list A), firstn (a + b) l = firstn a l ++ firstn b (skipn a l).
Proof.
  induction a as [| a IH]; intros l; [reflexivity |].
  cbn [Nat.add]. destruct l as [| x r]; cbn [firstn skipn app].
  - rewrite firstn_nil. reflexivity.
  - f_equal. apply IH.
Qed.

Lemma nxt_length l pos n : length (nxt l pos n) = N.to_nat n.
Proof. apply BitsLemmasR.take_pad_length. Qed.

Lemma nxt_0 l pos : nxt l pos 0 = [].
Proof. reflexivity. Qed.

Lemma nxt_add l pos a b : nxt l pos (a + b) = nxt l pos a ++ nxt l (pos + a) b.
Proof.
  unfold nxt. rewrite !N2Nat.inj_add, take_pad_add, skipn_skipn_add. reflexivity.
Qed.

Lemma nxt_split l pos n a : a <= n -> nxt l pos n = nxt l pos a ++ nxt l (pos + a) (n - a).
Proof. intros H. rewrite <- nxt_add. f_equal. lia. Qed.

Lemma nth_nxt l pos n k :
  nth k (nxt l pos n) false = if (k <? N.to_nat n)%nat then nth (N.to_nat pos + k) l false else false.
Proof. unfold nxt. rewrite nth_take_pad, nth_skipn. reflexivity. Qed.

Lemma val_nxt_bound E l pos n : val E (nxt l pos n) < 2 ^ n.
Proof.
  pose proof (BitFacts.val_bound E (nxt l pos n)) as H. rewrite nxt_length, N2Nat.id in H. exact H.
Qed.

Lemma field_val_nxt E l pos n : field E (val E (nxt l pos n)) (N.to_nat n) = nxt l pos n.
Proof. rewrite <- (nxt_length l pos n) at 1. apply BitFacts.field_val. Qed.

(* ================================================================== Part 1: L0 *)
(* the L0 specification of copying n bits from a spec reader to a spec writer (a bit list) *)
Definition spec_copy (strict : bool) (n : N) (r : sreader) (b : bits) : outcome (sreader * bits) :=
  match s_take strict n r with
  | Ok (bs, r') => Ok (r', b ++ bs)
  | Err => Err | Fail => Fail | Fuel => Fuel
  end.

Lemma spec_copy_def strict n r b :
  spec_copy strict n r b =
  match s_take strict n r with
  | Ok (bs, r') => Ok (r', b ++ bs) | Err => Err | Fail => Fail | Fuel => Fuel end.
Proof. reflexivity. Qed.

Lemma s_take_length strict n r bs r' : s_take strict n r = Ok (bs, r') -> length bs = N.to_nat n.
Proof.
  unfold s_take. destruct (N.leb_spec n (N.of_nat (length (sr_rest r)))) as [H | H].
  - intros Heq. injection Heq as <- _. rewrite firstn_length. lia.
  - destruct strict; [discriminate |]. intros Heq. injection Heq as <- _. apply BitsLemmasR.take_pad_length.
Qed.

Lemma s_take_add strict a m r :
  s_take strict (a + m) r =
  match s_take strict a r with
  | Ok (bs, r') =>
      match s_take strict m r' with
      | Ok (bs', r'') => Ok (bs ++ bs', r'') | Err => Err | Fail => Fail | Fuel => Fuel end
  | Err => Err | Fail => Fail | Fuel => Fuel
  end.
Proof.
  destruct r as [rest pos pk]. unfold s_take. cbn [sr_rest sr_pos sr_peeked].
  rewrite N2Nat.inj_add.
  destruct (N.leb_spec a (N.of_nat (length rest))) as [Ha | Ha].
  - cbn [sr_rest sr_pos sr_peeked]. rewrite skipn_length.
    destruct (N.leb_spec (a + m) (N.of_nat (length rest))) as [Ham | Ham];
      destruct (N.leb_spec m (N.of_nat (length rest - N.to_nat a))) as [Hm | Hm]; try lia.
    + rewrite firstn_add, skipn_skipn_add. do 2 f_equal. f_equal. lia.
    + destruct strict; [reflexivity |].
      rewrite take_pad_add, (BitsLemmasR.take_pad_firstn (N.to_nat a)) by lia.
      do 2 f_equal. f_equal. lia.
  - destruct (N.leb_spec (a + m) (N.of_nat (length rest))) as [Ham | Ham]; [lia |].
    destruct strict; [reflexivity |]. cbn [sr_rest sr_pos sr_peeked length].
    assert (Hs : skipn (N.to_nat a) rest = []) by (apply skipn_all2; lia).
    destruct (N.leb_spec m (N.of_nat 0)) as [Hm | Hm].
    + assert (m = 0) as -> by lia. change (N.to_nat 0) with O. cbn [firstn skipn].
      rewrite Nat.add_0_r. rewrite app_nil_r. do 2 f_equal. f_equal. lia.
    + rewrite take_pad_add, Hs. do 2 f_equal. f_equal. lia.
Qed.

(* the generic chunked loop on the L0 primitives IS the specification (for n > 0 literally, the
   sr_peeked field included: every read_bits resets it, as s_take does) *)
Lemma generic_spec_gen E strict cap cnt : forall n r b,
  0 < n -> n <= 64 * N.of_nat cnt ->
  copy_generic (sprims E strict cap) (swprims E false) cnt n r b = spec_copy strict n r b.
Proof.
  induction cnt as [| c IH]; intros n r b Hn Hc; [lia |].
  cbn [copy_generic]. destruct (N.eqb_spec n 0) as [? | _]; [lia |]. cbv zeta.
  cbn [sprims p_bits swprims q_bits]. unfold s_bits.
  destruct (N.ltb_spec 64 (N.min n 64)) as [? | _]; [lia |].
  destruct (N.leb_spec n 64) as [Hle | Hgt].
  - replace (N.min n 64) with n by lia. unfold spec_copy.
    destruct (s_take strict n r) as [[bs r'] | | |] eqn:Ht; cbn [obind]; try reflexivity.
    rewrite sw_bits_ok by lia. cbn [obind].
    rewrite <- (s_take_length _ _ _ _ _ Ht), BitFacts.field_val.
    replace (n - n) with 0 by lia. destruct c; reflexivity.
  - replace (N.min n 64) with 64 by lia. unfold spec_copy.
    assert (Hsp : s_take strict n r = s_take strict (64 + (n - 64)) r) by (f_equal; lia).
    rewrite Hsp, s_take_add.
    destruct (s_take strict 64 r) as [[bs r'] | | |] eqn:Ht; cbn [obind]; try reflexivity.
    rewrite sw_bits_ok by lia. cbn [obind].
    rewrite <- (s_take_length _ _ _ _ _ Ht), BitFacts.field_val.
    rewrite IH by lia. unfold spec_copy.
    destruct (s_take strict (n - 64) r') as [[bs' r''] | | |]; try reflexivity.
    rewrite app_assoc. reflexivity.
Qed.

Theorem generic_spec E strict cap n r b : 0 < n ->
  copy_default (sprims E strict cap) (swprims E false) n r b = spec_copy strict n r b.
Proof. intros Hn. unfold copy_default. apply generic_spec_gen; lia. Qed.

(* n = 0: the loop returns at once, nothing changes (the spec differs only in resetting sr_peeked) *)
Theorem generic_spec_zero E strict cap r b :
  copy_default (sprims E strict cap) (swprims E false) 0 r b = Ok (r, b) /\
  spec_copy strict 0 r b = Ok ({| sr_rest := sr_rest r; sr_pos := sr_pos r + 0; sr_peeked := 0 |}, b ++ []).
Proof.
  split; [reflexivity |]. unfold spec_copy, s_take.
  destruct (N.leb_spec 0 (N.of_nat (length (sr_rest r)))); [reflexivity | lia].
Qed.

(* hence for every n: same outcome, same bits, same reader up to sr_peeked *)
Theorem generic_spec_all E strict cap n r b :
  match spec_copy strict n r b with
  | Ok (r1, b1) => exists r2, copy_default (sprims E strict cap) (swprims E false) n r b = Ok (r2, b1) /\
                              sr_rest r2 = sr_rest r1 /\ sr_pos r2 = sr_pos r1
  | Err => copy_default (sprims E strict cap) (swprims E false) n r b = Err
  | _ => False
  end.
Proof.
  destruct (N.eq_dec n 0) as [-> | Hn].
  - destruct (generic_spec_zero E strict cap r b) as [H1 H2]. rewrite H2, H1.
    exists r. rewrite app_nil_r. cbn [sr_rest sr_pos]. repeat split. lia.
  - rewrite generic_spec by lia. unfold spec_copy, s_take.
    destruct (_ <=? _); [eexists; repeat split |]. destruct strict; [reflexivity | eexists; repeat split].
Qed.

(* ================================================================== Part 2: the generic loop, abstractly *)
(* "the reader simulates the spec reader on read_bits": l = the source stream, Rr pos r = the reader
   state r stands at position pos of l *)
Definition reads_ok {SR} (PR : rprims SR) (E : endian) (l : bits) (strict : bool) (Rr : N -> SR -> Prop) : Prop :=
  forall n pos r, n <= 64 -> Rr pos r ->
    (strict = true -> pos + n <= N.of_nat (length l)) ->
    exists r', p_bits PR n r = Ok (val E (nxt l pos n), r') /\ Rr (pos + n) r'.
Definition reads_err {SR} (PR : rprims SR) (l : bits) (strict : bool) (Rr : N -> SR -> Prop) : Prop :=
  forall n pos r, 0 < n -> n <= 64 -> Rr pos r -> strict = true ->
    N.of_nat (length l) < pos + n -> p_bits PR n r = Err.
(* "the writer simulates the spec writer on write_bits" (Rw b w = the writer state w has written b);
   with clean_only = true only for values that fit in n bits (a writer built with `checks`) *)
Definition writes_ok {SW} (PW : wprims SW) (E : endian) (Rw : bits -> SW -> Prop) (clean_only : bool) : Prop :=
  forall v n b w, n <= 64 -> (clean_only = true -> v < 2 ^ n) -> Rw b w ->
    exists x w', q_bits PW v n w = Ok (x, w') /\ Rw (b ++ field E v (N.to_nat n)) w'.

Lemma writes_ok_weaken {SW} (PW : wprims SW) E Rw c : writes_ok PW E Rw false -> writes_ok PW E Rw c.
Proof. intros H v n b w Hn _ HW. apply H; [exact Hn | discriminate | exact HW]. Qed.

Section GenericCopy.
  Context {SR SW : Type}.
  Variable PR : rprims SR.
  Variable PW : wprims SW.
  Variable E : endian.
  Variable l : bits.
  Variable strict : bool.
  Variable Rr : N -> SR -> Prop.
  Variable Rw : bits -> SW -> Prop.

  Hypothesis Hp : reads_ok PR E l strict Rr.
  Hypothesis Hq : writes_ok PW E Rw true.

  Lemma copy_generic_ok cnt : forall n pos r b w,
    n <= 64 * N.of_nat cnt -> Rr pos r -> Rw b w ->
    (strict = true -> pos + n <= N.of_nat (length l)) ->
    exists r' w', copy_generic PR PW cnt n r w = Ok (r', w') /\ Rr (pos + n) r' /\ Rw (b ++ nxt l pos n) w'.
  Proof.
    induction cnt as [| c IH]; intros n pos r b w Hc HR HW Hs.
    - assert (n = 0) as -> by lia. exists r, w. cbn [copy_generic]. change (0 =? 0) with true. cbv iota.
      rewrite N.add_0_r, nxt_0, app_nil_r. auto.
    - cbn [copy_generic]. destruct (N.eqb_spec n 0) as [-> | Hn0].
      + exists r, w. rewrite N.add_0_r, nxt_0, app_nil_r. auto.
      + cbv zeta. set (chunk := N.min n 64).
        destruct (Hp chunk pos r) as (r' & Hr & HR'); [lia | exact HR | intros Hst; specialize (Hs Hst); lia |].
        rewrite Hr. cbn [obind].
        destruct (Hq (val E (nxt l pos chunk)) chunk b w) as (x & w' & Hw & HW');
          [lia | intros _; apply val_nxt_bound | exact HW |].
        rewrite Hw. cbn [obind]. rewrite field_val_nxt in HW'.
        destruct (IH (n - chunk) (pos + chunk) r' (b ++ nxt l pos chunk) w') as (r'' & w'' & He & HR'' & HW''); [lia | exact HR' | exact HW' | intros Hst; specialize (Hs Hst); lia |].
        exists r'', w''. split; [exact He |]. split.
        * replace (pos + n) with (pos + chunk + (n - chunk)) by lia. exact HR''.
        * rewrite (nxt_split l pos n chunk) by lia. rewrite app_assoc. exact HW''.
  Qed.

  Theorem copy_default_ok n pos r b w :
    Rr pos r -> Rw b w -> (strict = true -> pos + n <= N.of_nat (length l)) ->
    exists r' w', copy_default PR PW n r w = Ok (r', w') /\ Rr (pos + n) r' /\ Rw (b ++ nxt l pos n) w'.
  Proof. intros. unfold copy_default. apply copy_generic_ok; try assumption. lia. Qed.

  Hypothesis Hpe : reads_err PR l strict Rr.

  Lemma copy_generic_err cnt : forall n pos r b w,
    n <= 64 * N.of_nat cnt -> Rr pos r -> Rw b w -> strict = true -> N.of_nat (length l) < pos + n ->
    pos <= N.of_nat (length l) ->
    copy_generic PR PW cnt n r w = Err.
  Proof.
    induction cnt as [| c IH]; intros n pos r b w Hc HR HW Hst Hlen Hpos; [lia |].
    cbn [copy_generic]. destruct (N.eqb_spec n 0) as [-> | Hn0]; [lia |].
    cbv zeta. set (chunk := N.min n 64).
    destruct (N.lt_ge_cases (N.of_nat (length l)) (pos + chunk)) as [Hlt | Hge].
    - rewrite (Hpe chunk pos r); [reflexivity | lia | lia | exact HR | exact Hst | exact Hlt].
    - destruct (Hp chunk pos r) as (r' & Hr & HR'); [lia | exact HR | intros _; lia |].
      rewrite Hr. cbn [obind].
      destruct (Hq (val E (nxt l pos chunk)) chunk b w) as (x & w' & Hw & HW');
        [lia | intros _; apply val_nxt_bound | exact HW |].
      rewrite Hw. cbn [obind].
      apply (IH (n - chunk) (pos + chunk) r' (b ++ field E (val E (nxt l pos chunk)) (N.to_nat chunk)) w'); [lia | exact HR' | exact HW' | exact Hst | lia | lia].
  Qed.

  Theorem copy_default_err n pos r b w :
    Rr pos r -> Rw b w -> strict = true -> N.of_nat (length l) < pos + n -> pos <= N.of_nat (length l) ->
    copy_default PR PW n r w = Err.
  Proof. intros. unfold copy_default. eapply copy_generic_err; try eassumption. lia. Qed.
End GenericCopy.

(* ================================================================== Part 3: BufBitReader::copy_to *)
(* a read served from the buffer does not touch the source *)
Lemma read_bits_fast_shape E W n s : n <= 64 -> n <= br_bits s -> br_bits s < 2 * W ->
  exists v b, br_read_bits E W n s = Ok (v, mk (br_src s) b (br_bits s - n)).
Proof.
  intros Hn Hb HW. destruct s as [k buf bits]. cbn [br_bits br_src] in *.
  unfold br_read_bits. cbn [br_bits br_src br_buffer].
  destruct (N.ltb_spec 64 n); [lia |]. destruct (N.leb_spec (2 * W) bits); [lia |].
  destruct (N.leb_spec n bits); [| lia].
  destruct E.
  - rewrite (wshr_some (2 * W)) by lia. cbn [oo']. rewrite (wshr_some (2 * W)) by lia. cbn [oo'].
    rewrite (wshl_some (2 * W)) by lia. cbn [oo']. eauto.
  - rewrite (wshl_some (2 * W)) by lia. cbn [oo']. rewrite (wshr_some (2 * W)) by lia. cbn [oo']. eauto.
Qed.

Lemma nth_lt_pow2 W ws i : Forall (fun w => w < 2 ^ W) ws -> nth i ws 0 < 2 ^ W.
Proof.
  intros HF. destruct (nth_in_or_default i ws 0) as [Hin | ->]; [| apply pow2_pos].
  rewrite Forall_forall in HF. apply HF. exact Hin.
Qed.

(* m bits of the i-th word, in stream order, are the m stream bits from position i*W *)
Lemma nxt_word_field E W ws i m v : Forall (fun w => w < 2 ^ W) ws -> m <= W ->
  (forall j, j < m -> N.testbit v j =
                      N.testbit (nth (N.to_nat i) ws 0) (match E with BE => j + (W - m) | LE => j end)) ->
  field E v (N.to_nat m) = nxt (bits_of_words E W ws) (i * W) m.
Proof.
  intros HF Hm Hv. apply bits_ext.
  - rewrite BitsLemmasR.field_length, nxt_length. reflexivity.
  - rewrite BitsLemmasR.field_length. intros k Hk. rewrite nth_nxt.
    destruct (Nat.ltb_spec k (N.to_nat m)); [| lia].
    destruct E; cbn [field].
    + rewrite BitsLemmasR.nth_field_be by lia. rewrite Hv by lia.
      rewrite (word_bits BE W ws HF). unfold wbit, sbw. rewrite N2Nat.id.
      destruct (N.ltb_spec (N.of_nat (N.to_nat m - 1 - k) + (W - m)) W); [| lia].
      cbn [andb]. f_equal. lia.
    + rewrite BitsLemmasR.nth_field_le by lia. rewrite Hv by lia.
      rewrite (word_bits LE W ws HF). unfold wbit, sbw. rewrite N2Nat.id.
      destruct (N.ltb_spec (N.of_nat k) W); [| lia].
      cbn [andb]. f_equal. lia.
Qed.

Section CopyTo.
  Context {SW : Type}.
  Variable PW : wprims SW.
  Variable E : endian.
  Variable checks : bool.
  Variable Rw : bits -> SW -> Prop.
  Hypothesis Hq : writes_ok PW E Rw checks.

  Lemma drain_ok W fuel : forall left s pos b w,
    RInv E W s pos -> left <= br_bits s -> left <= 64 * N.of_nat fuel -> Rw b w ->
    exists buf' w', drain E PW W fuel left s w = Ok (mk (br_src s) buf' (br_bits s - left), w') /\
      RInv E W (mk (br_src s) buf' (br_bits s - left)) (pos + left) /\
      Rw (b ++ nxt (src_bits E W (br_src s)) pos left) w'.
  Proof.
    induction fuel as [| f IH]; intros left s pos b w HI Hl Hf HW.
    - assert (left = 0) as -> by lia. exists (br_buffer s), w. cbn [drain]. change (0 =? 0) with true. cbv iota.
      rewrite N.sub_0_r, N.add_0_r, nxt_0, app_nil_r. destruct s as [k0 bf0 bt0]; unfold mk; cbn [br_src br_buffer br_bits]. auto.
    - cbn [drain]. destruct (N.eqb_spec left 0) as [-> | Hl0].
      + exists (br_buffer s), w.
        rewrite N.sub_0_r, N.add_0_r, nxt_0, app_nil_r. destruct s as [k0 bf0 bt0]; unfold mk; cbn [br_src br_buffer br_bits]. auto.
      + cbv zeta. set (chunk := N.min left 64).
        pose proof HI as (_ & _ & Hb & Hpos & _ & Hst & _).
        destruct (read_bits_value E W s pos chunk HI) as (s' & He & HI' & _ & _); [lia | intros Hs; specialize (Hst Hs); nia |].
        destruct (read_bits_fast_shape E W chunk s) as (v0 & b0 & Hsh); [lia | lia | lia |].
        rewrite He in Hsh. injection Hsh as _ ->.
        rewrite He. cbn [obind]. fold (nxt (src_bits E W (br_src s)) pos chunk).
        destruct (Hq (val E (nxt (src_bits E W (br_src s)) pos chunk)) chunk b w) as (x & w' & Hw & HW');
          [lia | intros _; apply val_nxt_bound | exact HW |].
        rewrite Hw. cbn [obind]. rewrite field_val_nxt in HW'.
        destruct (IH (left - chunk) (mk (br_src s) b0 (br_bits s - chunk)) (pos + chunk) (b ++ nxt (src_bits E W (br_src s)) pos chunk) w' HI') as (buf' & w'' & Hd & HI'' & HW'');
          [unfold mk; cbn [br_bits]; lia | lia | exact HW' |].
        unfold mk in Hd, HI'', HW''. cbn [br_src br_bits] in Hd, HI'', HW''.
        replace (br_bits s - chunk - (left - chunk)) with (br_bits s - left) in Hd, HI'' by lia.
        replace (pos + chunk + (left - chunk)) with (pos + left) in HI'' by lia.
        exists buf', w''. split; [exact Hd |]. split; [exact HI'' |].
        rewrite (nxt_split _ pos left chunk) by lia. rewrite app_assoc. exact HW''.
  Qed.

  Lemma copy_words_ok W ws st (HF : Forall (fun w => w < 2 ^ W) ws) cnt : forall idx b w,
    W <= 64 -> (st = true -> idx + N.of_nat cnt <= N.of_nat (length ws)) -> Rw b w ->
    exists w', copy_words PW W cnt (srcw ws idx st) w = Ok (srcw ws (idx + N.of_nat cnt) st, w') /\
      Rw (b ++ nxt (bits_of_words E W ws) (idx * W) (N.of_nat cnt * W)) w'.
  Proof.
    induction cnt as [| c IH]; intros idx b w HW Hst HR.
    - exists w. cbn [copy_words]. change (N.of_nat 0) with 0. rewrite N.add_0_r, N.mul_0_l, nxt_0, app_nil_r. auto.
    - cbn [copy_words]. rewrite src_read_ok' by (intros Hs; specialize (Hst Hs); lia). cbn [obind].
      destruct (Hq (nth (N.to_nat idx) ws 0) W b w) as (x & w' & Hw & HW'); [lia | intros _; apply nth_lt_pow2; exact HF | exact HR |].
      rewrite Hw. cbn [obind].
      rewrite (nxt_word_field E W ws idx W (nth (N.to_nat idx) ws 0) HF) in HW';
        [| lia | intros j Hj; destruct E; f_equal; lia].
      destruct (IH (idx + 1) (b ++ nxt (bits_of_words E W ws) (idx * W) W) w' HW) as (w'' & Hc & HW''); [intros Hs; specialize (Hst Hs); lia | exact HW' |].
      exists w''. split.
      + rewrite Hc. do 2 f_equal. unfold srcw. f_equal. lia.
      + replace (N.of_nat (S c) * W) with (W + N.of_nat c * W) by lia.
        rewrite nxt_add, app_assoc. replace (idx * W + W) with ((idx + 1) * W) by lia. exact HW''.
  Qed.

  Lemma copy_words_err W ws (HF : Forall (fun w => w < 2 ^ W) ws) cnt : forall idx b w,
    W <= 64 -> cnt <> O -> N.of_nat (length ws) < idx + N.of_nat cnt -> Rw b w ->
    copy_words PW W cnt (srcw ws idx true) w = Err.
  Proof.
    induction cnt as [| c IH]; intros idx b w HW Hc Hlen HR; [congruence |].
    cbn [copy_words]. destruct (N.lt_ge_cases idx (N.of_nat (length ws))) as [Hi | Hi].
    - rewrite src_read_ok' by (intros _; exact Hi). cbn [obind].
      destruct (Hq (nth (N.to_nat idx) ws 0) W b w) as (x & w' & Hw & HW'); [lia | intros _; apply nth_lt_pow2; exact HF | exact HR |].
      rewrite Hw. cbn [obind]. apply (IH (idx + 1) (b ++ field E (nth (N.to_nat idx) ws 0) (N.to_nat W)) w' HW); [lia | lia | exact HW'].
    - rewrite src_read_err' by exact Hi. reflexivity.
  Qed.

End CopyTo.

Theorem copy_to_ok {SW} (PW : wprims SW) E checks (Rw : bits -> SW -> Prop)
    (Hq : writes_ok PW E Rw checks) W n s pos b w :
    RInv E W s pos -> Rw b w ->
    (ws_strict (br_src s) = true -> pos + n <= W * N.of_nat (length (ws_words (br_src s)))) ->
    exists s' w', br_copy_to E checks PW W n s w = Ok (s', w') /\ RInv E W s' (pos + n) /\
      Rw (b ++ nxt (src_bits E W (br_src s)) pos n) w' /\
      ws_words (br_src s') = ws_words (br_src s) /\ ws_strict (br_src s') = ws_strict (br_src s).
  Proof.
    intros HI HR Hs. pose proof HI as HI0. apply RInv_BInv in HI0.
    destruct s as [[ws idx st] buf bits]. binv_setup HI0.
    unfold src_bits. cbn [br_src ws_words ws_strict] in Hs |- *.
    unfold br_copy_to. cbn [br_bits]. set (fb := N.min n bits).
    destruct (drain_ok PW E checks Rw Hq W 3 fb _ pos b w HI) as (buf1 & w1 & Hd & HI1 & HW1);
      [cbn [br_bits]; lia | cbn [br_bits]; lia | exact HR |].
    unfold mk, src_bits in Hd, HI1, HW1. cbn [br_src br_bits ws_words] in Hd, HI1, HW1.
    rewrite Hd. cbn [obind].
    destruct (N.eqb_spec (n - fb) 0) as [Hz | Hnz].
    - assert (fb = n) as Hfb by lia. rewrite Hfb in *.
      eexists. exists w1. split; [reflexivity |]. split; [exact HI1 |]. split; [exact HW1 |]. split; reflexivity.
    - assert (fb = bits) as Hfb by lia. rewrite Hfb in *. clear Hfb.
      destruct (whole_words_split W (n - bits)) as (c & n2 & Hww & Hsplit & Hn2a & Hn2b); [lia | lia |].
      rewrite Hww. cbn [br_src]. fold (srcw ws idx st).
      assert (Hlen : st = true -> idx + c < N.of_nat (length ws)) by (intros Hst'; specialize (Hs Hst'); nia).
      destruct (copy_words_ok PW E checks Rw Hq W ws st HF (N.to_nat c) idx (b ++ nxt (bits_of_words E W ws) pos bits) w1 H64) as (w2 & Hc & HW2);
        [intros Hst'; specialize (Hlen Hst'); lia | exact HW1 |].
      rewrite Hc. cbn [obind]. rewrite !N2Nat.id in *.
      rewrite src_read_ok' by (intros Hst'; specialize (Hlen Hst'); lia). cbn [obind].
      replace (n - bits - c * W) with n2 by lia.
      set (x := nth (N.to_nat (idx + c)) ws 0).
      assert (Hx : x < 2 ^ W) by (apply nth_lt_pow2; exact HF).
      assert (Hasm : forall tl, tl = nxt (bits_of_words E W ws) ((idx + c) * W) n2 ->
                ((b ++ nxt (bits_of_words E W ws) pos bits) ++ nxt (bits_of_words E W ws) (idx * W) (c * W)) ++ tl
                = b ++ nxt (bits_of_words E W ws) pos n).
      { intros tl ->. rewrite (nxt_split _ pos n bits) by lia.
        replace (n - bits) with (c * W + n2) by lia. rewrite nxt_add.
        replace (pos + bits) with (idx * W) by lia. replace (idx * W + c * W) with ((idx + c) * W) by lia.
        rewrite <- !app_assoc. reflexivity. }
      destruct E.
      + rewrite (wshr_some W) by lia. cbn [oo'].
        destruct (Hq (x / 2 ^ (W - n2)) n2 ((b ++ nxt (bits_of_words BE W ws) pos bits) ++ nxt (bits_of_words BE W ws) (idx * W) (c * W)) w2) as (y & w3 & Hw & HW3);
          [lia | intros _; apply div_pow2_lt; replace (n2 + (W - n2)) with W by lia; exact Hx | exact HW2 |].
        rewrite Hw. cbn [obind].
        rewrite (wshl_some (2 * W)) by lia. cbn [oo']. rewrite (wshl_some (2 * W)) by lia. cbn [oo'].
        eexists. exists w3. split; [reflexivity |]. split; [| split; [| split; reflexivity]].
        * apply RInv_BInv. unfold srcw. binv_intro. intros j. unfold x. tb_norm.
          rewrite (word_bits BE W ws HF). unfold wbit, bufbit. rewrite !N2Nat.id. bits_done.
        * rewrite Hasm in HW3; [exact HW3 |].
          apply (nxt_word_field BE W ws (idx + c) n2); [exact HF | lia |].
          intros j Hj. fold x. rewrite tb_div_pow2. reflexivity.
      + set (v := if checks && (n2 <? 64) then N.land x (2 ^ n2 - 1) else x).
        destruct (Hq v n2 ((b ++ nxt (bits_of_words LE W ws) pos bits) ++ nxt (bits_of_words LE W ws) (idx * W) (c * W)) w2) as (y & w3 & Hw & HW3); [lia | | exact HW2 |].
        { intros Hck. subst v. rewrite Hck. cbn [andb]. destruct (N.ltb_spec n2 64).
          - rewrite pow2_sub1_ones, N.land_ones. apply N.mod_lt. apply N.pow_nonzero. discriminate.
          - assert (n2 = W) as -> by lia. exact Hx. }
        rewrite Hw. cbn [obind].
        rewrite (wshr_some (2 * W)) by lia. cbn [oo'].
        eexists. exists w3. split; [reflexivity |]. split; [| split; [| split; reflexivity]].
        * apply RInv_BInv. unfold srcw. binv_intro. intros j. unfold x. tb_norm.
          rewrite (word_bits LE W ws HF). unfold wbit, bufbit. rewrite !N2Nat.id. bits_done.
        * rewrite Hasm in HW3; [exact HW3 |].
          apply (nxt_word_field LE W ws (idx + c) n2); [exact HF | lia |].
          intros j Hj. fold x. subst v. destruct (checks && (n2 <? 64)); [| reflexivity].
          rewrite N.land_spec, tb_ones. destruct (N.ltb_spec j n2); [| lia]. apply andb_true_r.
Qed.

(* a strict source with fewer than n bits left: Err *)
Theorem copy_to_err {SW} (PW : wprims SW) E checks (Rw : bits -> SW -> Prop)
    (Hq : writes_ok PW E Rw checks) W n s pos b w :
    RInv E W s pos -> Rw b w -> ws_strict (br_src s) = true ->
    W * N.of_nat (length (ws_words (br_src s))) < pos + n ->
    br_copy_to E checks PW W n s w = Err.
Proof.
  intros HI HR Hst' Hlen. pose proof HI as HI0. apply RInv_BInv in HI0.
  destruct s as [[ws idx st] buf bits]. binv_setup HI0.
  cbn [br_src ws_words ws_strict] in Hst', Hlen. subst st. specialize (Hst eq_refl).
  unfold br_copy_to. cbn [br_bits]. set (fb := N.min n bits).
  destruct (drain_ok PW E checks Rw Hq W 3 fb _ pos b w HI) as (buf1 & w1 & Hd & HI1 & HW1);
    [cbn [br_bits]; lia | cbn [br_bits]; lia | exact HR |].
  unfold mk, src_bits in Hd, HI1, HW1. cbn [br_src br_bits ws_words] in Hd, HI1, HW1.
  rewrite Hd. cbn [obind].
  destruct (N.eqb_spec (n - fb) 0) as [Hz | Hnz]; [nia |].
  assert (fb = bits) as Hfb by lia. rewrite Hfb in *. clear Hfb.
  destruct (whole_words_split W (n - bits)) as (c & n2 & Hww & Hsplit & Hn2a & Hn2b); [lia | lia |].
  rewrite Hww. cbn [br_src]. fold (srcw ws idx true).
  assert (Hc : N.of_nat (length ws) < idx + c \/ idx + c = N.of_nat (length ws)) by nia.
  destruct Hc as [Hc | Hc].
  - rewrite (copy_words_err PW E checks Rw Hq W ws HF (N.to_nat c) idx (b ++ nxt (bits_of_words E W ws) pos bits) w1);
      [reflexivity | exact H64 | lia | lia | exact HW1].
  - destruct (copy_words_ok PW E checks Rw Hq W ws true HF (N.to_nat c) idx (b ++ nxt (bits_of_words E W ws) pos bits) w1 H64)
      as (w2 & Hcw & HW2); [intros _; lia | exact HW1 |].
    rewrite Hcw. cbn [obind]. rewrite src_read_err' by lia. reflexivity.
Qed.

(* ================================================================== Part 4: BufBitWriter::copy_from *)
Lemma sink_write_unbounded k ws : wk_cap k = None ->
  sink_write k ws = Ok {| wk_words := wk_words k ++ ws; wk_cap := None |}.
Proof. intros H. unfold sink_write. rewrite H. reflexivity. Qed.

(* destination relation for the L2 writer: invariant + abstraction + unbounded sink *)
Definition RwM (E : endian) (W : N) (b : bits) (sw : bwriter) : Prop :=
  wrel E W b sw /\ wk_cap (bw_sink sw) = None.

Lemma bw_writes_ok E W : writes_ok (bwprims E W false) E (RwM E W) false.
Proof.
  intros v n b w Hn _ [HR Hc]. cbn [bwprims q_bits].
  destruct (C01_write_bits_never_errs_unbounded E W v n b w HR Hn Hc) as (s' & He & HI & HA & Hc').
  exists n, s'. split; [exact He |]. split; [split; assumption | exact Hc'].
Qed.

Lemma bw_writes_ok_checks E W : writes_ok (bwprims E W true) E (RwM E W) true.
Proof.
  intros v n b w Hn Hv [HR Hc]. cbn [bwprims q_bits]. specialize (Hv eq_refl).
  destruct (C19_assert_iff E W v n w (proj1 HR) Hn) as (_ & Heq & Hiff).
  rewrite (Heq (proj2 Hiff Hv)).
  destruct (C01_write_bits_never_errs_unbounded E W v n b w HR Hn Hc) as (s' & He & HI & HA & Hc').
  exists n, s'. split; [exact He |]. split; [split; assumption | exact Hc'].
Qed.

Lemma bw_writes_ok_any E W checks : writes_ok (bwprims E W checks) E (RwM E W) checks.
Proof. destruct checks; [apply bw_writes_ok_checks | apply bw_writes_ok]. Qed.

Lemma bw_writes_ok_clean E W checks : writes_ok (bwprims E W checks) E (RwM E W) true.
Proof. destruct checks; [apply bw_writes_ok_checks | apply writes_ok_weaken, bw_writes_ok]. Qed.

Section CopyFrom.
  Context {SR : Type}.
  Variable PR : rprims SR.
  Variable E : endian.
  Variable l : bits.
  Variable strict : bool.
  Variable Rr : N -> SR -> Prop.
  Hypothesis Hp : reads_ok PR E l strict Rr.

  Lemma copy_from_words_ok W cnt : forall pos r k,
    W <= 64 -> wk_cap k = None -> Rr pos r ->
    (strict = true -> pos + N.of_nat cnt * W <= N.of_nat (length l)) ->
    exists r' ws, copy_from_words PR W cnt r k = Ok (r', {| wk_words := wk_words k ++ ws; wk_cap := None |}) /\
      Rr (pos + N.of_nat cnt * W) r' /\ Forall (fun w => w < 2 ^ W) ws /\
      bits_of_words E W ws = nxt l pos (N.of_nat cnt * W).
  Proof.
    induction cnt as [| c IH]; intros pos r k HW Hk HR Hs.
    - exists r, []. cbn [copy_from_words]. change (N.of_nat 0) with 0.
      rewrite N.mul_0_l, N.add_0_r, app_nil_r, nxt_0. destruct k as [kw kc]. cbn [wk_cap wk_words] in *. subst kc.
      repeat split; [assumption | constructor].
    - cbn [copy_from_words].
      destruct (Hp W pos r HW HR) as (r1 & Hr & HR1); [intros Hst; specialize (Hs Hst); lia |].
      rewrite Hr. cbn [obind]. rewrite sink_write_unbounded by exact Hk. cbn [obind].
      pose proof (val_nxt_bound E l pos W) as Hv.
      destruct (IH (pos + W) r1 {| wk_words := wk_words k ++ [wcast W (val E (nxt l pos W))]; wk_cap := None |} HW eq_refl HR1)
        as (r' & ws & Hc & HR' & HF & Hb); [intros Hst; specialize (Hs Hst); lia |].
      cbn [wk_words] in Hc.
      exists r', (wcast W (val E (nxt l pos W)) :: ws). split; [| split; [| split]].
      + rewrite Hc. rewrite <- app_assoc. reflexivity.
      + replace (pos + N.of_nat (S c) * W) with (pos + W + N.of_nat c * W) by lia. exact HR'.
      + constructor; [apply mod_pow2_lt | exact HF].
      + rewrite bits_of_words_cons, Hb. unfold wcast. rewrite N.mod_small by exact Hv.
        rewrite field_val_nxt. replace (N.of_nat (S c) * W) with (W + N.of_nat c * W) by lia.
        rewrite nxt_add. reflexivity.
  Qed.
End CopyFrom.

Theorem copy_from_ok {SR} (PR : rprims SR) E checks l strict (Rr : N -> SR -> Prop)
    (Hp : reads_ok PR E l strict Rr) W n r pos b sw :
  wrel E W b sw -> wk_cap (bw_sink sw) = None -> Rr pos r ->
  (strict = true -> pos + n <= N.of_nat (length l)) ->
  exists r' sw', bw_copy_from E checks PR W n r sw = Ok (r', sw') /\ Rr (pos + n) r' /\
    wrel E W (b ++ nxt l pos n) sw' /\ wk_cap (bw_sink sw') = None.
Proof.
  intros [HI HA] Hcap HR Hs. unfold bw_copy_from.
  destruct (N.ltb_spec 64 W) as [HW64 | HW64].
  - destruct (copy_default_ok PR (bwprims E W checks) E l strict Rr (RwM E W) Hp (bw_writes_ok_clean E W checks)
                n pos r b sw HR (conj (conj HI HA) Hcap) Hs) as (r' & sw' & He & HR' & [HW' Hc']).
    exists r', sw'. auto.
  - pose proof HI as ((HW8 & HWm) & H0 & H1 & H2 & H3).
    set (sp := bw_space sw) in *. set (buf := bw_buffer sw) in *.
    destruct (N.ltb_spec n sp) as [Hlt | Hge].
    + (* everything fits in the buffer *)
      destruct (Hp n pos r) as (r' & Hr & HR'); [lia | exact HR | exact Hs |].
      rewrite Hr. cbn [obind].
      pose proof (val_nxt_bound E l pos n) as Hv. pose proof (field_val_nxt E l pos n) as Hfv.
      set (v := val E (nxt l pos n)) in *. clearbody v.
      assert (Hstep : forall buf', pend E W buf' (sp - n) = pending E W sw ++ field E v (N.to_nat n) -> buf' < 2 ^ W ->
                exists r'' sw', Ok (r', {| bw_sink := bw_sink sw; bw_buffer := buf'; bw_space := sp - n |}) = Ok (r'', sw') /\
                            Rr (pos + n) r'' /\ wrel E W (b ++ nxt l pos n) sw' /\ wk_cap (bw_sink sw') = None).
      { intros buf' Hpend Hlt'.
        destruct (wstep_unbounded _ _ _ _ _ _ (wstep_keep E W sw 0 (field E v (N.to_nat n)) buf' (sp - n) HI ltac:(lia) ltac:(lia) Hlt' Hpend) Hcap)
          as (s' & Heq & HI' & HA' & Hc').
        injection Heq as <-. eexists. eexists. split; [reflexivity |]. split; [exact HR' |]. split; [| exact Hc'].
        split; [exact HI' |]. rewrite HA', HA, Hfv. reflexivity. }
      destruct E.
      * rewrite wshl_some by lia. cbn [oo']. apply Hstep.
        -- rewrite pending_pend. unfold pend. fold sp buf. cbn [field]. unfold wcast.
           rewrite <- (N.mod_small v (2 ^ n) Hv).
           apply field_be_split; [lia | |]; intros i Hi; tb.
        -- apply lor_lt_pow2; apply mod_pow2_lt.
      * rewrite wshr_some by lia. cbn [oo']. apply Hstep.
        -- rewrite pending_pend. unfold pend. fold sp buf. cbn [field]. unfold wrotr, wcast.
           rewrite (N.mod_small n W) by lia.
           rewrite <- (N.mod_small v (2 ^ n) Hv). rewrite <- (N.mod_small buf (2 ^ W)) by assumption.
           apply field_le_split; [lia | |]; intros i Hi; tb.
        -- apply lor_lt_pow2; [apply div_le_lt; assumption |]. apply wrotr_lt; [lia | apply mod_pow2_lt].
    + (* complete the buffered word, whole words, start a new buffered word *)
      set (n1 := n - sp). set (cnt := n1 / W). set (n2 := n1 mod W).
      assert (Hn1 : n1 = cnt * W + n2) by (subst cnt n2; rewrite N.mul_comm; apply N.div_mod; lia).
      assert (Hn2 : n2 < W) by (subst n2; apply N.mod_lt; lia).
      assert (Hb0 : match E with
                    | BE => match wshl W buf (sp - 1) with Some b => wshl W b 1 | None => None end
                    | LE => match wshr W buf (sp - 1) with Some b => wshr W b 1 | None => None end
                    end = Some (match E with BE => (buf * 2 ^ sp) mod 2 ^ W | LE => buf / 2 ^ sp end)).
      { destruct E.
        - rewrite (wshl_some W buf (sp - 1)) by lia. rewrite (wshl_some W _ 1) by lia. rewrite shl_shl1 by assumption. reflexivity.
        - rewrite (wshr_some W buf (sp - 1)) by lia. rewrite (wshr_some W _ 1) by lia. rewrite shr_shr1 by assumption. reflexivity. }
      rewrite Hb0. cbn [oo']. clear Hb0.
      destruct (Hp sp pos r) as (r1 & Hr1 & HR1); [lia | exact HR | intros Hst; specialize (Hs Hst); lia |].
      rewrite Hr1. cbn [obind].
      pose proof (val_nxt_bound E l pos sp) as Hv. pose proof (field_val_nxt E l pos sp) as Hfv.
      set (v := val E (nxt l pos sp)) in *. clearbody v.
      set (b0 := match E with BE => (buf * 2 ^ sp) mod 2 ^ W | LE => buf / 2 ^ sp end).
      set (b1 := match E with BE => N.lor b0 (wcast W v) | LE => N.lor b0 (wrotr W (wcast W v) sp) end).
      rewrite sink_write_unbounded by exact Hcap. cbn [obind].
      destruct (copy_from_words_ok PR E l strict Rr Hp W (N.to_nat cnt) (pos + sp) r1
                  {| wk_words := wk_words (bw_sink sw) ++ [b1]; wk_cap := None |} HW64 eq_refl HR1)
        as (r2 & ws & Hc & HR2 & HF & Hb); [rewrite N2Nat.id; intros Hst; specialize (Hs Hst); lia |].
      rewrite N2Nat.id in HR2, Hb. cbn [wk_words] in Hc. rewrite Hc. cbn [obind].
      destruct (Hp n2 (pos + sp + cnt * W) r2) as (r3 & Hr3 & HR3); [lia | exact HR2 | intros Hst; specialize (Hs Hst); lia |].
      rewrite Hr3. cbn [obind].
      pose proof (val_nxt_bound E l (pos + sp + cnt * W) n2) as Hv2.
      pose proof (field_val_nxt E l (pos + sp + cnt * W) n2) as Hfv2.
      set (v2 := val E (nxt l (pos + sp + cnt * W) n2)) in *. clearbody v2.
      set (b2 := match E with BE => wcast W v2 | LE => wrotr W (wcast W v2) n2 end).
      assert (Hb1 : b1 < 2 ^ W).
      { subst b1 b0. destruct E; apply lor_lt_pow2; try apply mod_pow2_lt.
        - apply div_le_lt; assumption.
        - apply wrotr_lt; [lia | apply mod_pow2_lt]. }
      assert (Hb2 : b2 < 2 ^ W).
      { subst b2. destruct E; [apply mod_pow2_lt | apply wrotr_lt; [lia | apply mod_pow2_lt]]. }
      assert (Hbits : bits_of_words E W (b1 :: ws) ++ pend E W b2 (W - n2) = pending E W sw ++ nxt l pos n).
      { assert (HA1 : field E b1 (N.to_nat W) = pending E W sw ++ field E v (N.to_nat sp)).
        { rewrite pending_pend. unfold pend. fold sp buf. subst b1 b0. destruct E; cbn [field]; unfold wcast.
          + rewrite <- (N.mod_small v (2 ^ sp) Hv).
            apply field_be_split; [lia | |]; intros i Hi; tb.
          + unfold wrotr. rewrite <- (N.mod_small v (2 ^ sp) Hv). rewrite <- (N.mod_small buf (2 ^ W)) by assumption.
            destruct (N.eq_dec sp W) as [Hsw | Hsw].
            * rewrite Hsw, N.mod_same by lia. apply field_le_split; [lia | |]; intros i Hi; tb.
            * rewrite (N.mod_small sp W) by lia. apply field_le_split; [lia | |]; intros i Hi; tb. }
        assert (HP : pend E W b2 (W - n2) = field E v2 (N.to_nat n2)).
        { unfold pend. subst b2. replace (W - (W - n2)) with n2 by lia. destruct E; cbn [field]; unfold wcast.
          + apply field_be_mod. lia.
          + apply field_le_ext. intros i Hi. unfold wrotr. rewrite (N.mod_small n2 W) by lia. tb. }
        rewrite bits_of_words_cons, Hb, HA1, HP, Hfv, Hfv2.
        rewrite (nxt_split l pos n sp) by lia. fold n1. rewrite Hn1, nxt_add.
        rewrite <- !app_assoc. reflexivity. }
      destruct (wstep_unbounded _ _ _ _ _ _
                  (wstep_commit E W sw 0 (nxt l pos n) (b1 :: ws) b2 (W - n2) HI (@Forall_cons N (fun w => w < 2 ^ W) b1 ws Hb1 HF) ltac:(lia) ltac:(lia) Hb2 Hbits) Hcap)
        as (s' & Heq & HI' & HA' & Hc').
      rewrite sink_write_unbounded in Heq by exact Hcap. cbn [obind] in Heq. injection Heq as <-.
      eexists. eexists. split; [reflexivity |].
      replace (pos + n) with (pos + sp + cnt * W + n2) by lia. split; [exact HR3 |].
      rewrite <- app_assoc. cbn [app]. split; [| reflexivity]. split; [exact HI' |]. rewrite HA', HA. reflexivity.
Qed.

(* a strict source with fewer than n bits left: Err *)
Section CopyFromErr.
  Context {SR : Type}.
  Variable PR : rprims SR.
  Variable E : endian.
  Variable l : bits.
  Variable strict : bool.
  Variable Rr : N -> SR -> Prop.
  Hypothesis Hp : reads_ok PR E l strict Rr.
  Hypothesis Hpe : reads_err PR l strict Rr.

  Lemma copy_from_words_err W cnt : forall pos r k,
    0 < W -> W <= 64 -> wk_cap k = None -> Rr pos r -> strict = true ->
    pos <= N.of_nat (length l) -> N.of_nat (length l) < pos + N.of_nat cnt * W ->
    copy_from_words PR W cnt r k = Err.
  Proof.
    induction cnt as [| c IH]; intros pos r k HW0 HW Hk HR Hst Hpos Hlen.
    - cbn [copy_from_words]. exfalso. lia.
    - cbn [copy_from_words].
      destruct (N.lt_ge_cases (N.of_nat (length l)) (pos + W)) as [Hlt | Hge].
      + rewrite (Hpe W pos r HW0 HW HR Hst Hlt). reflexivity.
      + destruct (Hp W pos r HW HR) as (r1 & Hr & HR1); [intros _; lia |].
        rewrite Hr. cbn [obind]. rewrite sink_write_unbounded by exact Hk. cbn [obind].
        apply (IH (pos + W)); [exact HW0 | exact HW | reflexivity | exact HR1 | exact Hst | lia | lia].
  Qed.
End CopyFromErr.

Lemma copy_from_b0 E W buf sp : 1 < W -> 0 < sp -> sp <= W ->
  match E with
  | BE => match wshl W buf (sp - 1) with Some b => wshl W b 1 | None => None end
  | LE => match wshr W buf (sp - 1) with Some b => wshr W b 1 | None => None end
  end = Some (match E with BE => (buf * 2 ^ sp) mod 2 ^ W | LE => buf / 2 ^ sp end).
Proof.
  intros HW H0 H1. destruct E.
  - rewrite (wshl_some W buf (sp - 1)) by lia. rewrite (wshl_some W _ 1) by lia. rewrite shl_shl1 by assumption. reflexivity.
  - rewrite (wshr_some W buf (sp - 1)) by lia. rewrite (wshr_some W _ 1) by lia. rewrite shr_shr1 by assumption. reflexivity.
Qed.

Theorem copy_from_err {SR} (PR : rprims SR) E checks l strict (Rr : N -> SR -> Prop)
    (Hp : reads_ok PR E l strict Rr) (Hpe : reads_err PR l strict Rr) W n r pos b sw :
  wrel E W b sw -> wk_cap (bw_sink sw) = None -> Rr pos r ->
  strict = true -> pos <= N.of_nat (length l) -> N.of_nat (length l) < pos + n ->
  bw_copy_from E checks PR W n r sw = Err.
Proof.
  intros [HI HA] Hcap HR Hst Hpos Hlen. unfold bw_copy_from.
  destruct (N.ltb_spec 64 W) as [HW64 | HW64].
  - apply (copy_default_err PR (bwprims E W checks) E l strict Rr (RwM E W) Hp (bw_writes_ok_clean E W checks) Hpe
             n pos r b sw HR (conj (conj HI HA) Hcap) Hst Hlen Hpos).
  - pose proof HI as ((HW8 & HWm) & H0 & H1 & H2 & H3).
    set (sp := bw_space sw) in *. set (buf := bw_buffer sw) in *.
    destruct (N.ltb_spec n sp) as [Hlt | Hge].
    + rewrite (Hpe n pos r); [reflexivity | lia | lia | exact HR | exact Hst | exact Hlen].
    + rewrite copy_from_b0 by (try assumption; lia). cbn [oo'].
      destruct (N.lt_ge_cases (N.of_nat (length l)) (pos + sp)) as [Hl1 | Hl1].
      { rewrite (Hpe sp pos r); [reflexivity | lia | lia | exact HR | exact Hst | exact Hl1]. }
      destruct (Hp sp pos r) as (r1 & Hr1 & HR1); [lia | exact HR | intros _; lia |].
      rewrite Hr1. cbn [obind]. rewrite sink_write_unbounded by exact Hcap. cbn [obind].
      set (n1 := n - sp). set (cnt := n1 / W). set (n2 := n1 mod W).
      assert (Hn1 : n1 = cnt * W + n2) by (subst cnt n2; rewrite N.mul_comm; apply N.div_mod; lia).
      assert (Hn2 : n2 < W) by (subst n2; apply N.mod_lt; lia).
      destruct (N.lt_ge_cases (N.of_nat (length l)) (pos + sp + cnt * W)) as [Hl2 | Hl2].
      { rewrite (copy_from_words_err PR E l strict Rr Hp Hpe W (N.to_nat cnt) (pos + sp) r1);
          [reflexivity | lia | exact HW64 | reflexivity | exact HR1 | exact Hst | lia | rewrite N2Nat.id; exact Hl2]. }
      match goal with |- context [copy_from_words PR W (N.to_nat cnt) r1 ?k] =>
        destruct (copy_from_words_ok PR E l strict Rr Hp W (N.to_nat cnt) (pos + sp) r1 k HW64 eq_refl HR1)
          as (r2 & ws & Hc & HR2 & _ & _); [rewrite N2Nat.id; intros _; exact Hl2 |] end.
      rewrite N2Nat.id in HR2. rewrite Hc. cbn [obind].
      rewrite (Hpe n2 (pos + sp + cnt * W) r2); [reflexivity | lia | lia | exact HR2 | exact Hst | lia].
Qed.

(* ================================================================== Part 5: instances *)
(* ------------------------------------------------------------------ the L0 reader and writer *)
(* a spec reader that has consumed pos bits of l since its position was p0 *)
Definition Rr0 (l : bits) (p0 pos : N) (r : sreader) : Prop :=
  sr_rest r = skipn (N.to_nat pos) l /\ sr_pos r = p0 + pos.

Lemma sprims_reads_ok E strict cap l p0 : reads_ok (sprims E strict cap) E l strict (Rr0 l p0).
Proof.
  intros n pos r Hn [Hrest Hpos] Hs. cbn [sprims p_bits]. unfold s_bits, s_take.
  destruct (N.ltb_spec 64 n); [lia |]. rewrite Hrest, skipn_length.
  destruct (N.leb_spec n (N.of_nat (length l - N.to_nat pos))) as [Hle | Hgt].
  - eexists. split.
    + unfold nxt. rewrite (BitsLemmasR.take_pad_firstn (N.to_nat n)) by (rewrite skipn_length; lia). reflexivity.
    + split; cbn [sr_rest sr_pos]; [| lia]. rewrite skipn_skipn_add. f_equal. lia.
  - destruct strict; [specialize (Hs eq_refl); lia |].
    eexists. split; [reflexivity |]. split; cbn [sr_rest sr_pos]; [| lia].
    symmetry. apply skipn_all2. lia.
Qed.

Lemma sprims_reads_err E strict cap l p0 : reads_err (sprims E strict cap) l strict (Rr0 l p0).
Proof.
  intros n pos r Hn0 Hn [Hrest Hpos] -> Hlen. cbn [sprims p_bits]. unfold s_bits, s_take.
  destruct (N.ltb_spec 64 n); [lia |]. rewrite Hrest, skipn_length.
  destruct (N.leb_spec n (N.of_nat (length l - N.to_nat pos))) as [Hle | Hgt]; [lia | reflexivity].
Qed.

Lemma sw_writes_ok E : writes_ok (swprims E false) E (fun b w => w = b) false.
Proof.
  intros v n b w Hn _ ->. cbn [swprims q_bits]. rewrite sw_bits_ok by exact Hn. eauto.
Qed.
Lemma sw_writes_ok_checks E : writes_ok (swprims E true) E (fun b w => w = b) true.
Proof.
  intros v n b w Hn Hv ->. cbn [swprims q_bits]. rewrite sw_bits_checks_clean; [eauto | exact Hn | exact (Hv eq_refl)].
Qed.
Lemma sw_writes_ok_any E checks : writes_ok (swprims E checks) E (fun b w => w = b) checks.
Proof. destruct checks; [apply sw_writes_ok_checks | apply sw_writes_ok]. Qed.

(* ------------------------------------------------------------------ the L2 buffered reader *)
Definition RrM (E : endian) (W : N) (ws : list N) (st : bool) (pos : N) (r : breader) : Prop :=
  RInv E W r pos /\ ws_words (br_src r) = ws /\ ws_strict (br_src r) = st.

Lemma length_bow E W ws : N.of_nat (length (bits_of_words E W ws)) = W * N.of_nat (length ws).
Proof. rewrite bits_of_words_length. lia. Qed.

Lemma br_reads_ok E W ws st : reads_ok (brprims E W) E (bits_of_words E W ws) st (RrM E W ws st).
Proof.
  intros n pos r Hn (HI & Hw & Hs) Hlen. cbn [brprims p_bits]. rewrite length_bow in Hlen.
  destruct (read_bits_value E W r pos n HI Hn) as (r' & He & HI' & Hw' & Hs').
  { rewrite Hw, Hs. exact Hlen. }
  exists r'. unfold src_bits in He. rewrite Hw in He. split; [exact He |].
  split; [exact HI' |]. split; congruence.
Qed.

Lemma br_reads_err E W ws st : reads_err (brprims E W) (bits_of_words E W ws) st (RrM E W ws st).
Proof.
  intros n pos r Hn0 Hn (HI & Hw & Hs) -> Hlen. cbn [brprims p_bits]. rewrite length_bow in Hlen.
  apply (strict_error_bits E W r pos n HI Hs Hn0 Hn). rewrite Hw. exact Hlen.
Qed.

(* ================================================================== Part 6: the published statements *)
Ltac conjs := repeat match goal with |- _ /\ _ => split end; try assumption.
Lemma src_bits_eq E W s ws : ws_words (br_src s) = ws -> src_bits E W (br_src s) = bits_of_words E W ws.
Proof. intros <-. reflexivity. Qed.

(* ------------------------------------------------------------------ copy_to *)
(* optimised reader path into the L2 writer (any word width Ww), either build (`checks`) *)
Theorem copy_to_machine E checks W Ww n s pos sw b :
  RInv E W s pos -> wrel E Ww b sw -> wk_cap (bw_sink sw) = None ->
  (ws_strict (br_src s) = true -> pos + n <= W * N.of_nat (length (ws_words (br_src s)))) ->
  exists s' sw', br_copy_to E checks (bwprims E Ww checks) W n s sw = Ok (s', sw') /\
    RInv E W s' (pos + n) /\
    wrel E Ww (b ++ take_pad (N.to_nat n) (skipn (N.to_nat pos) (src_bits E W (br_src s)))) sw' /\
    wk_cap (bw_sink sw') = None /\
    ws_words (br_src s') = ws_words (br_src s) /\ ws_strict (br_src s') = ws_strict (br_src s).
Proof.
  intros HI HR Hc Hs.
  destruct (copy_to_ok (bwprims E Ww checks) E checks (RwM E Ww) (bw_writes_ok_any E Ww checks) W n s pos b sw HI (conj HR Hc) Hs)
    as (s' & sw' & He & HI' & [HR' Hc'] & Hw & Hst).
  exists s', sw'. conjs.
Qed.

Theorem copy_to_machine_false E W Ww n s pos sw b :
  RInv E W s pos -> wrel E Ww b sw -> wk_cap (bw_sink sw) = None ->
  (ws_strict (br_src s) = true -> pos + n <= W * N.of_nat (length (ws_words (br_src s)))) ->
  exists s' sw', br_copy_to E false (bwprims E Ww false) W n s sw = Ok (s', sw') /\
    RInv E W s' (pos + n) /\
    wrel E Ww (b ++ take_pad (N.to_nat n) (skipn (N.to_nat pos) (src_bits E W (br_src s)))) sw' /\
    wk_cap (bw_sink sw') = None /\
    ws_words (br_src s') = ws_words (br_src s) /\ ws_strict (br_src s') = ws_strict (br_src s).
Proof. apply copy_to_machine. Qed.

(* the `checks` build: every value handed to write_bits is clean, the copy never returns Fail *)
Theorem copy_to_machine_checks E W Ww n s pos sw b :
  RInv E W s pos -> wrel E Ww b sw -> wk_cap (bw_sink sw) = None ->
  (ws_strict (br_src s) = true -> pos + n <= W * N.of_nat (length (ws_words (br_src s)))) ->
  exists s' sw', br_copy_to E true (bwprims E Ww true) W n s sw = Ok (s', sw') /\
    RInv E W s' (pos + n) /\
    wrel E Ww (b ++ take_pad (N.to_nat n) (skipn (N.to_nat pos) (src_bits E W (br_src s)))) sw' /\
    wk_cap (bw_sink sw') = None /\
    ws_words (br_src s') = ws_words (br_src s) /\ ws_strict (br_src s') = ws_strict (br_src s).
Proof. apply copy_to_machine. Qed.

(* optimised reader path into the L0 writer *)
Theorem copy_to_spec_writer E checks W n s pos b :
  RInv E W s pos ->
  (ws_strict (br_src s) = true -> pos + n <= W * N.of_nat (length (ws_words (br_src s)))) ->
  exists s', br_copy_to E checks (swprims E checks) W n s b =
             Ok (s', b ++ take_pad (N.to_nat n) (skipn (N.to_nat pos) (src_bits E W (br_src s)))) /\
    RInv E W s' (pos + n) /\
    ws_words (br_src s') = ws_words (br_src s) /\ ws_strict (br_src s') = ws_strict (br_src s).
Proof.
  intros HI Hs.
  destruct (copy_to_ok (swprims E checks) E checks (fun b w => w = b) (sw_writes_ok_any E checks) W n s pos b b HI eq_refl Hs)
    as (s' & w' & He & HI' & -> & Hw & Hst).
  exists s'. conjs.
Qed.

(* strict source with fewer than n bits left *)
Theorem copy_to_machine_err E checks W Ww n s pos sw b :
  RInv E W s pos -> wrel E Ww b sw -> wk_cap (bw_sink sw) = None ->
  ws_strict (br_src s) = true -> W * N.of_nat (length (ws_words (br_src s))) < pos + n ->
  br_copy_to E checks (bwprims E Ww checks) W n s sw = Err.
Proof.
  intros HI HR Hc Hs Hl.
  apply (copy_to_err (bwprims E Ww checks) E checks (RwM E Ww) (bw_writes_ok_any E Ww checks) W n s pos b sw HI (conj HR Hc) Hs Hl).
Qed.

Theorem copy_to_spec_writer_err E checks W n s pos b :
  RInv E W s pos -> ws_strict (br_src s) = true -> W * N.of_nat (length (ws_words (br_src s))) < pos + n ->
  br_copy_to E checks (swprims E checks) W n s b = Err.
Proof.
  intros HI Hs Hl.
  apply (copy_to_err (swprims E checks) E checks (fun b w => w = b) (sw_writes_ok_any E checks) W n s pos b b HI eq_refl Hs Hl).
Qed.

(* ------------------------------------------------------------------ copy_from *)
Lemma RInv_pos_le E W s pos : RInv E W s pos -> ws_strict (br_src s) = true ->
  pos <= W * N.of_nat (length (ws_words (br_src s))).
Proof. intros (_ & _ & _ & H4 & _ & H6 & _) Hs. specialize (H6 Hs). nia. Qed.

(* optimised writer path (any word width W, including the 128-bit fall-back) out of the L2 reader *)
Theorem copy_from_machine E checks W Wr n sw b sr pos :
  wrel E W b sw -> wk_cap (bw_sink sw) = None -> RInv E Wr sr pos ->
  (ws_strict (br_src sr) = true -> pos + n <= Wr * N.of_nat (length (ws_words (br_src sr)))) ->
  exists sr' sw', bw_copy_from E checks (brprims E Wr) W n sr sw = Ok (sr', sw') /\
    RInv E Wr sr' (pos + n) /\
    wrel E W (b ++ take_pad (N.to_nat n) (skipn (N.to_nat pos) (src_bits E Wr (br_src sr)))) sw' /\
    wk_cap (bw_sink sw') = None /\
    ws_words (br_src sr') = ws_words (br_src sr) /\ ws_strict (br_src sr') = ws_strict (br_src sr).
Proof.
  intros HR Hc HI Hs.
  destruct (copy_from_ok (brprims E Wr) E checks _ _ _ (br_reads_ok E Wr (ws_words (br_src sr)) (ws_strict (br_src sr)))
              W n sr pos b sw HR Hc (conj HI (conj eq_refl eq_refl)))
    as (sr' & sw' & He & (HI' & Hw & Hst) & HR' & Hc').
  { rewrite length_bow. exact Hs. }
  exists sr', sw'. conjs.
Qed.

Theorem copy_from_machine_err E checks W Wr n sw b sr pos :
  wrel E W b sw -> wk_cap (bw_sink sw) = None -> RInv E Wr sr pos ->
  ws_strict (br_src sr) = true -> Wr * N.of_nat (length (ws_words (br_src sr))) < pos + n ->
  bw_copy_from E checks (brprims E Wr) W n sr sw = Err.
Proof.
  intros HR Hc HI Hs Hl.
  apply (copy_from_err (brprims E Wr) E checks _ _ _ (br_reads_ok E Wr (ws_words (br_src sr)) (ws_strict (br_src sr)))
           (br_reads_err E Wr _ _) W n sr pos b sw HR Hc (conj HI (conj eq_refl eq_refl)) Hs).
  - rewrite length_bow. apply (RInv_pos_le E Wr sr pos HI Hs).
  - rewrite length_bow. exact Hl.
Qed.

(* optimised writer path out of the L0 reader *)
Theorem copy_from_spec_reader E checks W strict cap n sw b r :
  wrel E W b sw -> wk_cap (bw_sink sw) = None ->
  (strict = true -> n <= N.of_nat (length (sr_rest r))) ->
  exists r' sw', bw_copy_from E checks (sprims E strict cap) W n r sw = Ok (r', sw') /\
    sr_rest r' = skipn (N.to_nat n) (sr_rest r) /\ sr_pos r' = sr_pos r + n /\
    wrel E W (b ++ take_pad (N.to_nat n) (sr_rest r)) sw' /\ wk_cap (bw_sink sw') = None.
Proof.
  intros HR Hc Hs.
  destruct (copy_from_ok (sprims E strict cap) E checks (sr_rest r) strict (Rr0 (sr_rest r) (sr_pos r))
              (sprims_reads_ok E strict cap (sr_rest r) (sr_pos r)) W n r 0 b sw HR Hc)
    as (r' & sw' & He & [Hrest Hpos] & HR' & Hc').
  { split; [reflexivity | lia]. }
  { intros Hst. specialize (Hs Hst). lia. }
  exists r', sw'. rewrite N.add_0_l in Hrest, Hpos. conjs.
Qed.

Theorem copy_from_spec_reader_err E checks W cap n sw b r :
  wrel E W b sw -> wk_cap (bw_sink sw) = None -> N.of_nat (length (sr_rest r)) < n ->
  bw_copy_from E checks (sprims E true cap) W n r sw = Err.
Proof.
  intros HR Hc Hl.
  apply (copy_from_err (sprims E true cap) E checks (sr_rest r) true (Rr0 (sr_rest r) (sr_pos r))
           (sprims_reads_ok E true cap (sr_rest r) (sr_pos r)) (sprims_reads_err E true cap (sr_rest r) (sr_pos r))
           W n r 0 b sw HR Hc); [split; [reflexivity | lia] | reflexivity | lia | lia].
Qed.

(* ------------------------------------------------------------------ the generic loop on the machines *)
Theorem copy_default_machine E checks W Ww n s pos sw b :
  RInv E W s pos -> wrel E Ww b sw -> wk_cap (bw_sink sw) = None ->
  (ws_strict (br_src s) = true -> pos + n <= W * N.of_nat (length (ws_words (br_src s)))) ->
  exists s' sw', copy_default (brprims E W) (bwprims E Ww checks) n s sw = Ok (s', sw') /\
    RInv E W s' (pos + n) /\
    wrel E Ww (b ++ take_pad (N.to_nat n) (skipn (N.to_nat pos) (src_bits E W (br_src s)))) sw' /\
    wk_cap (bw_sink sw') = None /\
    ws_words (br_src s') = ws_words (br_src s) /\ ws_strict (br_src s') = ws_strict (br_src s).
Proof.
  intros HI HR Hc Hs.
  destruct (copy_default_ok (brprims E W) (bwprims E Ww checks) E _ _ _ (RwM E Ww)
              (br_reads_ok E W (ws_words (br_src s)) (ws_strict (br_src s))) (bw_writes_ok_clean E Ww checks)
              n pos s b sw (conj HI (conj eq_refl eq_refl)) (conj HR Hc))
    as (s' & sw' & He & (HI' & Hw & Hst) & [HR' Hc']).
  { rewrite length_bow. exact Hs. }
  exists s', sw'. conjs.
Qed.

Theorem copy_default_machine_err E checks W Ww n s pos sw b :
  RInv E W s pos -> wrel E Ww b sw -> wk_cap (bw_sink sw) = None ->
  ws_strict (br_src s) = true -> W * N.of_nat (length (ws_words (br_src s))) < pos + n ->
  copy_default (brprims E W) (bwprims E Ww checks) n s sw = Err.
Proof.
  intros HI HR Hc Hs Hl.
  apply (copy_default_err (brprims E W) (bwprims E Ww checks) E _ _ _ (RwM E Ww)
           (br_reads_ok E W (ws_words (br_src s)) (ws_strict (br_src s))) (bw_writes_ok_clean E Ww checks)
           (br_reads_err E W _ _) n pos s b sw (conj HI (conj eq_refl eq_refl)) (conj HR Hc) Hs).
  - rewrite length_bow. exact Hl.
  - rewrite length_bow. apply (RInv_pos_le E W s pos HI Hs).
Qed.

(* ------------------------------------------------------------------ specialised = generic (feature no_copy_impls) *)
(* from the same starting states the optimised paths and the generic chunked loop end in states with
   the same abstractions: same reader position / remaining stream, same written bits; or both Err *)
Theorem specialised_eq_generic_copy_to E checks W Ww n s pos sw b :
  RInv E W s pos -> wrel E Ww b sw -> wk_cap (bw_sink sw) = None ->
  (ws_strict (br_src s) = true -> pos + n <= W * N.of_nat (length (ws_words (br_src s)))) ->
  exists s1 w1 s2 w2,
    br_copy_to E checks (bwprims E Ww checks) W n s sw = Ok (s1, w1) /\
    copy_default (brprims E W) (bwprims E Ww checks) n s sw = Ok (s2, w2) /\
    RInv E W s1 (pos + n) /\ RInv E W s2 (pos + n) /\
    rabs E W s1 (pos + n) 0 = rabs E W s2 (pos + n) 0 /\
    WInv Ww w1 /\ WInv Ww w2 /\ wabs E Ww w1 = wabs E Ww w2.
Proof.
  intros HI HR Hc Hs.
  destruct (copy_to_machine E checks W Ww n s pos sw b HI HR Hc Hs) as (s1 & w1 & H1 & HI1 & [HW1 HA1] & _ & Hws1 & _).
  destruct (copy_default_machine E checks W Ww n s pos sw b HI HR Hc Hs) as (s2 & w2 & H2 & HI2 & [HW2 HA2] & _ & Hws2 & _).
  exists s1, w1, s2, w2. conjs.
  - unfold rabs, src_bits. rewrite Hws1, Hws2. reflexivity.
  - rewrite HA1, HA2. reflexivity.
Qed.

Theorem specialised_eq_generic_copy_from E checks W Wr n sw b sr pos :
  wrel E W b sw -> wk_cap (bw_sink sw) = None -> RInv E Wr sr pos ->
  (ws_strict (br_src sr) = true -> pos + n <= Wr * N.of_nat (length (ws_words (br_src sr)))) ->
  exists s1 w1 s2 w2,
    bw_copy_from E checks (brprims E Wr) W n sr sw = Ok (s1, w1) /\
    copy_default (brprims E Wr) (bwprims E W checks) n sr sw = Ok (s2, w2) /\
    RInv E Wr s1 (pos + n) /\ RInv E Wr s2 (pos + n) /\
    rabs E Wr s1 (pos + n) 0 = rabs E Wr s2 (pos + n) 0 /\
    WInv W w1 /\ WInv W w2 /\ wabs E W w1 = wabs E W w2.
Proof.
  intros HR Hc HI Hs.
  destruct (copy_from_machine E checks W Wr n sw b sr pos HR Hc HI Hs) as (s1 & w1 & H1 & HI1 & [HW1 HA1] & _ & Hws1 & _).
  destruct (copy_default_machine E checks Wr W n sr pos sw b HI HR Hc Hs) as (s2 & w2 & H2 & HI2 & [HW2 HA2] & _ & Hws2 & _).
  exists s1, w1, s2, w2. conjs.
  - unfold rabs, src_bits. rewrite Hws1, Hws2. reflexivity.
  - rewrite HA1, HA2. reflexivity.
Qed.

Theorem specialised_eq_generic_err E checks W Ww n s pos sw b :
  RInv E W s pos -> wrel E Ww b sw -> wk_cap (bw_sink sw) = None ->
  ws_strict (br_src s) = true -> W * N.of_nat (length (ws_words (br_src s))) < pos + n ->
  br_copy_to E checks (bwprims E Ww checks) W n s sw = Err /\
  bw_copy_from E checks (brprims E W) Ww n s sw = Err /\
  copy_default (brprims E W) (bwprims E Ww checks) n s sw = Err.
Proof.
  intros HI HR Hc Hs Hl. split; [| split].
  - apply (copy_to_machine_err E checks W Ww n s pos sw b); assumption.
  - apply (copy_from_machine_err E checks Ww W n sw b s pos); assumption.
  - apply (copy_default_machine_err E checks W Ww n s pos sw b); assumption.
Qed.

(* ------------------------------------------------------------------ n = 0 *)
Theorem copy_zero_to {SW} E checks (PW : wprims SW) W s w : br_copy_to E checks PW W 0 s w = Ok (s, w).
Proof. unfold br_copy_to. rewrite N.min_0_l. reflexivity. Qed.

Theorem copy_zero_default {SR SW} (PR : rprims SR) (PW : wprims SW) r w : copy_default PR PW 0 r w = Ok (r, w).
Proof. reflexivity. Qed.

Theorem copy_zero_from E checks W Wr sw b sr pos :
  wrel E W b sw -> wk_cap (bw_sink sw) = None -> RInv E Wr sr pos ->
  exists sr' sw', bw_copy_from E checks (brprims E Wr) W 0 sr sw = Ok (sr', sw') /\
    RInv E Wr sr' pos /\ wrel E W b sw' /\
    rabs E Wr sr' pos 0 = rabs E Wr sr pos 0 /\ wabs E W sw' = wabs E W sw.
Proof.
  intros HR Hc HI.
  destruct (copy_from_machine E checks W Wr 0 sw b sr pos HR Hc HI) as (sr' & sw' & He & HI' & HR' & _ & Hw & _).
  { intros Hs. rewrite N.add_0_r. apply (RInv_pos_le E Wr sr pos HI Hs). }
  rewrite N.add_0_r in HI'. change (N.to_nat 0) with O in HR'. cbn [take_pad] in HR'. rewrite app_nil_r in HR'.
  exists sr', sw'. conjs; try apply HR'.
  - unfold rabs, src_bits. rewrite Hw. reflexivity.
  - destruct HR' as [_ ->]. destruct HR as [_ ->]. reflexivity.
Qed.

(* ================================================================== examples *)
Definition ex_w16 : list N := [42435; 3870; 39030; 21554; 57005; 48879].
Definition ex_w64 : list N := [12297829382473034410; 1; 18446744073709551615; 81985529216486895].
Definition get {A} (o : outcome A) (d : A) : A := match o with Ok a => a | _ => d end.

(* u16-word strict reader after peek_bits(5) (refill: 16 bits buffered) and read_bits(5):
   11 bits in the buffer, position 5 *)
Definition ex_reader16 (E : endian) : outcome breader :=
  obind (br_peek E 16 5 (br_new ex_w16 true)) (fun '(_, s1) =>
  obind (br_read_bits E 16 5 s1) (fun '(_, s2) => Ok s2)).
(* u32-word writer holding 5 pending bits *)
Definition ex_writer32 (E : endian) : outcome bwriter :=
  obind (bw_write_bits E 32 false 21 5 (bw_new None 32)) (fun '(_, w) => Ok w).
(* u64-word zero-extended reader after read_bits(40) and peek_bits(50) (refill): 88 bits buffered *)
Definition ex_reader64 (E : endian) : outcome breader :=
  obind (br_read_bits E 64 40 (br_new ex_w64 false)) (fun '(_, s1) =>
  obind (br_peek E 64 50 s1) (fun '(_, s2) => Ok s2)).
(* u8-word writer holding 3 pending bits *)
Definition ex_writer8 (E : endian) : outcome bwriter :=
  obind (bw_write_bits E 8 false 5 3 (bw_new None 8)) (fun '(_, w) => Ok w).

Definition ex_s16 E := get (ex_reader16 E) (br_new [] true).
Definition ex_wr32 E := get (ex_writer32 E) (bw_new None 32).
Definition ex_s64 E := get (ex_reader64 E) (br_new [] true).
Definition ex_wr8 E := get (ex_writer8 E) (bw_new None 8).
(* the runs *)
Definition ex_to1 E := br_copy_to E false (bwprims E 32 false) 16 37 (ex_s16 E) (ex_wr32 E).
Definition ex_gen1 E := copy_default (brprims E 16) (bwprims E 32 false) 37 (ex_s16 E) (ex_wr32 E).
Definition ex_to2 E := br_copy_to E false (bwprims E 8 false) 64 100 (ex_s64 E) (ex_wr8 E).
Definition ex_gen2 E := copy_default (brprims E 64) (bwprims E 8 false) 100 (ex_s64 E) (ex_wr8 E).
Definition ex_from1 E := bw_copy_from E false (brprims E 16) 32 85 (ex_s16 E) (ex_wr32 E).
Definition ex_gen3 E := copy_default (brprims E 16) (bwprims E 32 false) 85 (ex_s16 E) (ex_wr32 E).
Definition ex_from2 E := bw_copy_from E false (brprims E 16) 32 20 (ex_s16 E) (ex_wr32 E).
Definition ex_from3 E := bw_copy_from E false (brprims E 16) 128 85 (ex_s16 E) (bw_new None 128).
Definition res {A B} (o : outcome (A * B)) (a : A) (b : B) : A * B := get o (a, b).
Definition ex_to1r E := res (ex_to1 E) (ex_s16 E) (ex_wr32 E).
Definition ex_gen1r E := res (ex_gen1 E) (ex_s16 E) (ex_wr32 E).
Definition ex_to2r E := res (ex_to2 E) (ex_s64 E) (ex_wr8 E).
Definition ex_gen2r E := res (ex_gen2 E) (ex_s64 E) (ex_wr8 E).
Definition ex_from1r E := res (ex_from1 E) (ex_s16 E) (ex_wr32 E).
Definition ex_gen3r E := res (ex_gen3 E) (ex_s16 E) (ex_wr32 E).
Definition ex_from2r E := res (ex_from2 E) (ex_s16 E) (ex_wr32 E).
Definition ex_from3r E := res (ex_from3 E) (ex_s16 E) (ex_wr32 E).

Ltac ex_norm t := let v := eval vm_compute in t in change t with v.
Ltac ex_inv :=
  cbn [fst snd];
  repeat match goal with
  | |- _ /\ _ => split
  | |- RInv _ _ _ _ => unfold RInv; cbv iota
  | |- wrel _ _ _ _ => unfold wrel
  | |- WInv _ _ => unfold WInv
  | |- wordsize_ok _ => unfold wordsize_ok
  | |- Forall _ _ => cbn [br_src ws_words bw_sink wk_words]; repeat constructor
  | |- _ -> _ => intros _
  | |- _ => vm_compute; first [reflexivity | congruence]
  end.

(* all the runs succeed (so the ex_..r below are their results) *)
Example ex_runs_ok E :
  ex_reader16 E = Ok (ex_s16 E) /\ ex_writer32 E = Ok (ex_wr32 E) /\
  ex_reader64 E = Ok (ex_s64 E) /\ ex_writer8 E = Ok (ex_wr8 E) /\
  ex_to1 E = Ok (ex_to1r E) /\ ex_gen1 E = Ok (ex_gen1r E) /\
  ex_to2 E = Ok (ex_to2r E) /\ ex_gen2 E = Ok (ex_gen2r E) /\
  ex_from1 E = Ok (ex_from1r E) /\ ex_gen3 E = Ok (ex_gen3r E) /\
  ex_from2 E = Ok (ex_from2r E) /\ ex_from3 E = Ok (ex_from3r E).
Proof. destruct E; vm_compute; repeat split. Qed.

(* the hypotheses of copy_to_machine / copy_from_machine / specialised_eq_generic_* hold *)
Example ex_hyp_16_32 E :
  RInv E 16 (ex_s16 E) 5 /\ br_bits (ex_s16 E) = 11 /\ wrel E 32 (field E 21 5) (ex_wr32 E) /\
  wk_cap (bw_sink (ex_wr32 E)) = None /\
  (ws_strict (br_src (ex_s16 E)) = true -> 5 + 37 <= 16 * N.of_nat (length (ws_words (br_src (ex_s16 E))))) /\
  (ws_strict (br_src (ex_s16 E)) = true -> 5 + 85 <= 16 * N.of_nat (length (ws_words (br_src (ex_s16 E))))).
Proof.
  destruct E.
  - ex_norm (ex_s16 BE). ex_norm (ex_wr32 BE). ex_inv.
  - ex_norm (ex_s16 LE). ex_norm (ex_wr32 LE). ex_inv.
Qed.
Example ex_hyp_64_8 E :
  RInv E 64 (ex_s64 E) 40 /\ br_bits (ex_s64 E) = 88 /\ wrel E 8 (field E 5 3) (ex_wr8 E) /\
  wk_cap (bw_sink (ex_wr8 E)) = None /\ ws_strict (br_src (ex_s64 E)) = false.
Proof.
  destruct E.
  - ex_norm (ex_s64 BE). ex_norm (ex_wr8 BE). ex_inv.
  - ex_norm (ex_s64 LE). ex_norm (ex_wr8 LE). ex_inv.
Qed.

(* so the theorems apply to them *)
Example ex_apply_copy_to E : exists s' sw',
  ex_to1 E = Ok (s', sw') /\ RInv E 16 s' (5 + 37) /\
  wrel E 32 (field E 21 5 ++ take_pad (N.to_nat 37) (skipn (N.to_nat 5) (src_bits E 16 (br_src (ex_s16 E))))) sw'.
Proof.
  destruct (ex_hyp_16_32 E) as (H1 & _ & H2 & H3 & H4 & _).
  destruct (copy_to_machine_false E 16 32 37 _ 5 _ _ H1 H2 H3 H4) as (s' & sw' & He & HI & HR & _).
  exists s', sw'. auto.
Qed.
Example ex_apply_copy_from E : exists s' sw',
  ex_from1 E = Ok (s', sw') /\ RInv E 16 s' (5 + 85) /\
  wrel E 32 (field E 21 5 ++ take_pad (N.to_nat 85) (skipn (N.to_nat 5) (src_bits E 16 (br_src (ex_s16 E))))) sw'.
Proof.
  destruct (ex_hyp_16_32 E) as (H1 & _ & H2 & H3 & _ & H4).
  destruct (copy_from_machine E false 32 16 85 _ _ _ 5 H2 H3 H1 H4) as (s' & sw' & He & HI & HR & _).
  exists s', sw'. auto.
Qed.

(* copy 37 bits, u16 reader (11 bits buffered) -> u32 writer (5 bits pending): 11 bits from the buffer,
   one whole word, 10 bits of the next word (6 stay buffered); the generic loop ends in the same
   abstract state *)
Example ex_copy_to_16_32 E :
  wabs E 32 (snd (ex_to1r E)) = field E 21 5 ++ nxt (bits_of_words E 16 ex_w16) 5 37 /\
  wabs E 32 (snd (ex_gen1r E)) = wabs E 32 (snd (ex_to1r E)) /\
  RInv E 16 (fst (ex_to1r E)) 42 /\ RInv E 16 (fst (ex_gen1r E)) 42 /\
  br_bits (fst (ex_to1r E)) = 6 /\ ws_idx (br_src (fst (ex_to1r E))) = 3 /\
  WInv 32 (snd (ex_to1r E)) /\ WInv 32 (snd (ex_gen1r E)).
Proof.
  destruct E.
  - ex_norm (ex_to1r BE). ex_norm (ex_gen1r BE). ex_inv.
  - ex_norm (ex_to1r LE). ex_norm (ex_gen1r LE). ex_inv.
Qed.

(* the `checks` build gives the same result; what makes it work for LE is the masking of the last
   word: the unmasked LE path handed to a checking writer trips the assertion *)
Example ex_copy_to_checks E :
  br_copy_to E true (bwprims E 32 true) 16 37 (ex_s16 E) (ex_wr32 E) = ex_to1 E /\
  br_copy_to E false (bwprims E 32 true) 16 37 (ex_s16 E) (ex_wr32 E) =
    match E with BE => ex_to1 E | LE => Fail end.
Proof. destruct E; vm_compute; repeat split. Qed.

(* u64-word reader holding 88 > 64 buffered bits, copy 100 bits into a u8-word writer *)
Example ex_copy_to_64_8 E :
  wabs E 8 (snd (ex_to2r E)) = field E 5 3 ++ nxt (bits_of_words E 64 ex_w64) 40 100 /\
  wabs E 8 (snd (ex_gen2r E)) = wabs E 8 (snd (ex_to2r E)) /\
  RInv E 64 (fst (ex_to2r E)) 140 /\ RInv E 64 (fst (ex_gen2r E)) 140 /\
  br_bits (fst (ex_to2r E)) = 52 /\ WInv 8 (snd (ex_to2r E)).
Proof.
  destruct E.
  - ex_norm (ex_to2r BE). ex_norm (ex_gen2r BE). ex_inv.
  - ex_norm (ex_to2r LE). ex_norm (ex_gen2r LE). ex_inv.
Qed.

(* copy_from: the writer's optimised path (u32: 27 bits complete the buffered word, one whole word,
   26 bits stay buffered), the short path (20 < 27 bits), and the 128-bit fall-back *)
Example ex_copy_from_16_32 E :
  wabs E 32 (snd (ex_from1r E)) = field E 21 5 ++ nxt (bits_of_words E 16 ex_w16) 5 85 /\
  wabs E 32 (snd (ex_gen3r E)) = wabs E 32 (snd (ex_from1r E)) /\
  RInv E 16 (fst (ex_from1r E)) 90 /\ RInv E 16 (fst (ex_gen3r E)) 90 /\
  WInv 32 (snd (ex_from1r E)) /\ bw_space (snd (ex_from1r E)) = 6 /\
  wabs E 32 (snd (ex_from2r E)) = field E 21 5 ++ nxt (bits_of_words E 16 ex_w16) 5 20 /\
  RInv E 16 (fst (ex_from2r E)) 25 /\ WInv 32 (snd (ex_from2r E)) /\
  wabs E 128 (snd (ex_from3r E)) = nxt (bits_of_words E 16 ex_w16) 5 85 /\
  RInv E 16 (fst (ex_from3r E)) 90 /\ WInv 128 (snd (ex_from3r E)).
Proof.
  destruct E.
  - ex_norm (ex_from1r BE). ex_norm (ex_gen3r BE). ex_norm (ex_from2r BE). ex_norm (ex_from3r BE). ex_inv.
  - ex_norm (ex_from1r LE). ex_norm (ex_gen3r LE). ex_norm (ex_from2r LE). ex_norm (ex_from3r LE). ex_inv.
Qed.

(* strict end of stream: 96 bits in all, position 5: 91 bits can be copied, 92 cannot *)
Example ex_copy_err E :
  br_copy_to E false (bwprims E 32 false) 16 92 (ex_s16 E) (ex_wr32 E) = Err /\
  bw_copy_from E false (brprims E 16) 32 92 (ex_s16 E) (ex_wr32 E) = Err /\
  copy_default (brprims E 16) (bwprims E 32 false) 92 (ex_s16 E) (ex_wr32 E) = Err /\
  (exists r, br_copy_to E false (bwprims E 32 false) 16 91 (ex_s16 E) (ex_wr32 E) = Ok r) /\
  (exists r, bw_copy_from E false (brprims E 16) 32 91 (ex_s16 E) (ex_wr32 E) = Ok r).
Proof. destruct E; vm_compute; repeat split; eauto. Qed.

(* L0: the generic loop is the specification (strict, 70 of 96 bits; zero-extended, 130 bits; strict
   with too few bits) *)
Example ex_generic_spec E :
  copy_default (sprims E true 16) (swprims E false) 70 (sreader_of (bits_of_words E 16 ex_w16)) [true] =
  spec_copy true 70 (sreader_of (bits_of_words E 16 ex_w16)) [true] /\
  copy_default (sprims E false 16) (swprims E false) 130 (sreader_of (bits_of_words E 16 ex_w16)) [true] =
  spec_copy false 130 (sreader_of (bits_of_words E 16 ex_w16)) [true] /\
  copy_default (sprims E true 16) (swprims E false) 97 (sreader_of (bits_of_words E 16 ex_w16)) [true] = Err.
Proof. destruct E; vm_compute; repeat split. Qed.
