(* BitsLemmasR.v — general bit-level lemmas for the reader proofs (self-contained):
   N.testbit characterisations of shifts/masks, of field_le/field_be, val_le/val_be,
   take_pad/skipn, count_zeros, leading_zeros/trailing_zeros. *)
From Coq Require Import ZifyBool ZifyNat ZifyN.
From DSI Require Import Base Words.
Open Scope N_scope.

(* ------------------------------------------------------------------ testbit of word operations *)
Lemma tb_mul_pow2 a n j : N.testbit (a * 2 ^ n) j = if j <? n then false else N.testbit a (j - n).
Proof.
  destruct (N.ltb_spec j n).
  - apply N.mul_pow2_bits_low; assumption.
  - apply N.mul_pow2_bits_high; assumption.
Qed.

Lemma tb_div_pow2 a n j : N.testbit (a / 2 ^ n) j = N.testbit a (j + n).
Proof. apply N.div_pow2_bits. Qed.

Lemma tb_mod_pow2 a n j : N.testbit (a mod 2 ^ n) j = if j <? n then N.testbit a j else false.
Proof.
  destruct (N.ltb_spec j n).
  - apply N.mod_pow2_bits_low; assumption.
  - apply N.mod_pow2_bits_high; assumption.
Qed.

Lemma tb_high a n j : a < 2 ^ n -> n <= j -> N.testbit a j = false.
Proof.
  intros Ha Hj. rewrite <- (N.mod_small a (2 ^ n)) by assumption.
  apply N.mod_pow2_bits_high; assumption.
Qed.

Lemma lt_pow2_of_bits a n : (forall j, n <= j -> N.testbit a j = false) -> a < 2 ^ n.
Proof.
  intros H. destruct (N.eq_dec a 0) as [-> | Hz].
  - apply N.neq_0_lt_0. apply N.pow_nonzero. discriminate.
  - apply N.log2_lt_pow2; [lia |].
    destruct (N.lt_ge_cases (N.log2 a) n) as [Hl | Hl]; [assumption |].
    specialize (H _ Hl). rewrite N.bit_log2 in H by assumption. discriminate.
Qed.

Lemma mod0_of_bits a n : (forall j, j < n -> N.testbit a j = false) -> a mod 2 ^ n = 0.
Proof.
  intros H. apply N.bits_inj. intros j. rewrite tb_mod_pow2, N.bits_0.
  destruct (N.ltb_spec j n); auto.
Qed.

Lemma tb_low_mod0 a n j : a mod 2 ^ n = 0 -> j < n -> N.testbit a j = false.
Proof.
  intros H Hj. rewrite <- (N.mod_pow2_bits_low a n j) by assumption. rewrite H. apply N.bits_0.
Qed.

Lemma tb_ones n j : N.testbit (2 ^ n - 1) j = (j <? n).
Proof.
  replace (2 ^ n - 1) with (N.ones n) by (rewrite N.ones_equiv; lia).
  destruct (N.ltb_spec j n).
  - apply N.ones_spec_low; assumption.
  - apply N.ones_spec_high; assumption.
Qed.

Lemma W64_pow : W64 = 2 ^ 64.
Proof. reflexivity. Qed.

(* ------------------------------------------------------------------ option-valued word ops *)
Lemma wshl_some W x n : n < W -> wshl W x n = Some ((x * 2 ^ n) mod 2 ^ W).
Proof. intros H. unfold wshl. destruct (N.ltb_spec n W); [reflexivity | lia]. Qed.
Lemma wshr_some W x n : n < W -> wshr W x n = Some (x / 2 ^ n).
Proof. intros H. unfold wshr. destruct (N.ltb_spec n W); [reflexivity | lia]. Qed.
Lemma shl64_some x n : n < 64 -> shl64 x n = Some ((x * 2 ^ n) mod 2 ^ 64).
Proof. intros H. unfold shl64. destruct (N.ltb_spec n 64); [reflexivity | lia]. Qed.
Lemma shr64_some x n : n < 64 -> shr64 x n = Some (x / 2 ^ n).
Proof. intros H. unfold shr64. destruct (N.ltb_spec n 64); [reflexivity | lia]. Qed.

(* ------------------------------------------------------------------ fields *)
Lemma field_le_from_length v i n : length (field_le_from v i n) = n.
Proof. revert i. induction n; intros i; cbn [field_le_from length]; [reflexivity | rewrite IHn; reflexivity]. Qed.

Lemma nth_field_le_from v n : forall i k, (k < n)%nat ->
  nth k (field_le_from v i n) false = N.testbit v (i + N.of_nat k).
Proof.
  induction n; intros i k Hk; [lia |].
  cbn [field_le_from]. destruct k as [| k]; cbn [nth].
  - f_equal. lia.
  - rewrite IHn by lia. f_equal. lia.
Qed.

Lemma field_le_length v n : length (field_le v n) = n.
Proof. apply field_le_from_length. Qed.
Lemma field_be_length v n : length (field_be v n) = n.
Proof. unfold field_be. rewrite rev_length. apply field_le_length. Qed.
Lemma field_length E v n : length (field E v n) = n.
Proof. destruct E; [apply field_be_length | apply field_le_length]. Qed.

Lemma nth_field_le v n k : (k < n)%nat -> nth k (field_le v n) false = N.testbit v (N.of_nat k).
Proof. intros H. unfold field_le. rewrite nth_field_le_from by assumption. f_equal. Qed.

Lemma nth_field_be v n k : (k < n)%nat -> nth k (field_be v n) false = N.testbit v (N.of_nat (n - 1 - k)).
Proof.
  intros H. unfold field_be. rewrite rev_nth by (rewrite field_le_length; assumption).
  rewrite field_le_length. rewrite nth_field_le by lia. f_equal. lia.
Qed.

Lemma nth_overflow_false (l : bits) k : (length l <= k)%nat -> nth k l false = false.
Proof. apply nth_overflow. Qed.

(* ------------------------------------------------------------------ values *)
Lemma tb_val_le l : forall j, N.testbit (val_le l) j = nth (N.to_nat j) l false.
Proof.
  induction l as [| b r IH]; intros j.
  - cbn [val_le]. rewrite N.bits_0. destruct (N.to_nat j); reflexivity.
  - cbn [val_le]. rewrite N.add_comm.
    destruct (N.eq_dec j 0) as [-> | Hj].
    + rewrite N.testbit_0_r. reflexivity.
    + replace j with (N.succ (N.pred j)) by lia.
      rewrite N.testbit_succ_r. rewrite IH.
      replace (N.to_nat (N.succ (N.pred j))) with (S (N.to_nat (N.pred j))) by lia.
      reflexivity.
Qed.

Lemma tb_val_be_acc l : forall acc j,
  N.testbit (val_be_acc acc l) j =
  if j <? N.of_nat (length l) then nth (N.to_nat (N.of_nat (length l) - 1 - j)) l false
  else N.testbit acc (j - N.of_nat (length l)).
Proof.
  induction l as [| b r IH]; intros acc j.
  - cbn [val_be_acc length]. destruct (N.ltb_spec j (N.of_nat 0)); [lia |]. f_equal. lia.
  - cbn [val_be_acc]. rewrite IH. cbn [length].
    destruct (N.ltb_spec j (N.of_nat (length r))); destruct (N.ltb_spec j (N.of_nat (S (length r)))); try lia.
    + replace (N.to_nat (N.of_nat (S (length r)) - 1 - j)) with (S (N.to_nat (N.of_nat (length r) - 1 - j))) by lia.
      reflexivity.
    + replace (N.to_nat (N.of_nat (S (length r)) - 1 - j)) with O by lia.
      replace (j - N.of_nat (length r)) with 0 by lia.
      cbn [nth]. apply N.testbit_0_r.
    + replace (j - N.of_nat (length r)) with (N.succ (j - N.of_nat (S (length r)))) by lia.
      apply N.testbit_succ_r.
Qed.

Lemma tb_val_be l j :
  N.testbit (val_be l) j =
  if j <? N.of_nat (length l) then nth (N.to_nat (N.of_nat (length l) - 1 - j)) l false else false.
Proof.
  unfold val_be. rewrite tb_val_be_acc. destruct (_ <? _); [reflexivity | apply N.bits_0].
Qed.

(* ------------------------------------------------------------------ take_pad / skipn *)
Lemma take_pad_length n : forall l, length (take_pad n l) = n.
Proof. induction n; intros l; cbn [take_pad length]; [reflexivity |]. destruct l; cbn [length]; rewrite IHn; reflexivity. Qed.

Lemma nth_take_pad n : forall l k, nth k (take_pad n l) false = if (k <? n)%nat then nth k l false else false.
Proof.
  induction n; intros l k.
  - cbn [take_pad]. destruct k; reflexivity.
  - cbn [take_pad]. destruct l as [| b r]; destruct k as [| k]; cbn [nth]; try reflexivity.
    + rewrite IHn. change (S k <? S n)%nat with (k <? n)%nat. destruct (k <? n)%nat; destruct k; reflexivity.
    + rewrite IHn. reflexivity.
Qed.

Lemma nth_skipn {A} p : forall (l : list A) k d, nth k (skipn p l) d = nth (p + k) l d.
Proof.
  induction p; intros l k d; [reflexivity |].
  destruct l as [| a r]; cbn [skipn].
  - destruct k; destruct (S p + _)%nat; reflexivity.
  - rewrite IHp. reflexivity.
Qed.

Lemma take_pad_firstn n : forall l, (n <= length l)%nat -> take_pad n l = firstn n l.
Proof.
  induction n; intros l H; [reflexivity |].
  destruct l as [| b r]; cbn [length] in H; [lia |].
  cbn [take_pad firstn]. rewrite IHn by lia. reflexivity.
Qed.

Lemma skipn_all_nil {A} (l : list A) n : (length l <= n)%nat -> skipn n l = [].
Proof. apply skipn_all2. Qed.

(* equality of bit lists by nth *)
Lemma bits_ext (l1 l2 : bits) :
  length l1 = length l2 -> (forall k, (k < length l1)%nat -> nth k l1 false = nth k l2 false) -> l1 = l2.
Proof.
  revert l2. induction l1 as [| a r IH]; intros [| b r2] HL H; cbn [length] in *; try lia; [reflexivity |].
  f_equal.
  - apply (H O). lia.
  - apply IH; [lia |]. intros k Hk. apply (H (S k)). lia.
Qed.

(* ------------------------------------------------------------------ count_zeros *)
Lemma count_zeros_some l : forall z, (forall i, (i < z)%nat -> nth i l false = false) -> nth z l false = true ->
  count_zeros l = Some (N.of_nat z).
Proof.
  induction l as [| b r IH]; intros z Hz H1.
  - destruct z; discriminate.
  - destruct z as [| z].
    + cbn [nth] in H1. subst b. reflexivity.
    + cbn [count_zeros]. pose proof (Hz O ltac:(lia)) as H0. cbn [nth] in H0. subst b.
      rewrite (IH z).
      * f_equal. lia.
      * intros i Hi. apply (Hz (S i)). lia.
      * exact H1.
Qed.

Lemma count_zeros_none l : (forall i, nth i l false = false) -> count_zeros l = None.
Proof.
  induction l as [| b r IH]; intros H; [reflexivity |].
  cbn [count_zeros]. pose proof (H O) as H0. cbn [nth] in H0. subst b.
  rewrite IH; [reflexivity |]. intros i. apply (H (S i)).
Qed.

(* ------------------------------------------------------------------ leading / trailing zeros *)
Lemma ctz_pos_bit p : N.testbit (Npos p) (ctz_pos p) = true.
Proof.
  induction p as [p IH | p IH |]; cbn [ctz_pos]; try reflexivity.
  change (N.pos p~0) with (2 * N.pos p). rewrite N.testbit_even_succ by lia. exact IH.
Qed.

Lemma ctz_pos_low p : forall j, j < ctz_pos p -> N.testbit (Npos p) j = false.
Proof.
  induction p as [p IH | p IH |]; cbn [ctz_pos]; intros j Hj; try lia.
  change (N.pos p~0) with (2 * N.pos p).
  destruct (N.eq_dec j 0) as [-> | Hz].
  - apply N.testbit_even_0.
  - replace j with (N.succ (N.pred j)) by lia. rewrite N.testbit_even_succ by lia. apply IH. lia.
Qed.

Lemma trailing_zeros_spec W x : x <> 0 ->
  N.testbit x (trailing_zeros W x) = true /\ forall j, j < trailing_zeros W x -> N.testbit x j = false.
Proof.
  destruct x as [| p]; [congruence |]. intros _. cbn [trailing_zeros].
  split; [apply ctz_pos_bit | apply ctz_pos_low].
Qed.

Lemma leading_zeros_spec W x : x <> 0 -> x < 2 ^ W ->
  leading_zeros W x < W /\
  N.testbit x (W - 1 - leading_zeros W x) = true /\
  forall j, W - 1 - leading_zeros W x < j -> N.testbit x j = false.
Proof.
  intros Hz Hx. assert (HL : N.log2 x < W) by (apply N.log2_lt_pow2; lia).
  destruct x as [| p]; [congruence |]. cbn [leading_zeros].
  replace (W - 1 - (W - 1 - N.log2 (N.pos p))) with (N.log2 (N.pos p)) by lia.
  split; [lia |]. split.
  - apply N.bit_log2. assumption.
  - intros j Hj. apply N.bits_above_log2. assumption.
Qed.

Lemma skipn_skipn_add {A} y : forall x (l : list A), skipn x (skipn y l) = skipn (y + x) l.
Proof.
  induction y; intros x l; [reflexivity |].
  destruct l as [| a r]; cbn [skipn plus].
  - destruct x; reflexivity.
  - apply IHy.
Qed.
