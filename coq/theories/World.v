(* World.v — bulk copy paths, std::io views, counting wrappers; a "world" = one reader and
   one writer at a chosen level (L0 bit lists or L2 word machines). *)
From DSI Require Export Codes Writer Reader.
Open Scope prog_scope.

(* ------------------------------------------------------------------ *)
(* std::io::Write / std::io::Read views (buf_bit_writer.rs, buf_bit_reader.rs, bit_reader.rs) *)
Section IoViews.
  Variable E : endian.

  (* u64::from_be_bytes / from_le_bytes of up to 8 bytes; remainder assembly loops *)
  Definition u64_of_chunk (bs : list N) : N := word_of_bytes E bs.

  Fixpoint io_write_chunks (fuel : nat) (buf : list N) : wprog N :=
    match fuel with
    | O => WFail
    | S f =>
        match buf with
        | [] => WRet 0
        | _ =>
            if N.of_nat (length buf) <? 8 then
              (* remainder: BE folds the bytes in order, LE in reverse order *)
              _ <-- WBits (u64_of_chunk buf) (8 * N.of_nat (length buf)) WRet ;; WRet 0
            else
              _ <-- WBits (u64_of_chunk (firstn 8 buf)) 64 WRet ;; io_write_chunks f (skipn 8 buf)
        end
    end.
  Definition io_write (buf : list N) : wprog N :=
    _ <-- io_write_chunks (S (length buf)) buf ;; WRet (N.of_nat (length buf)).

  (* word.to_be_bytes()[8-rem..] / word.to_le_bytes()[..rem] *)
  Definition bytes_of_u64 (rem : nat) (w : N) : list N :=
    match E with
    | BE => rev (le_bytes rem w)
    | LE => le_bytes rem w
    end.

  Fixpoint io_read_chunks (fuel : nat) (len : N) : rprog (list N) :=
    match fuel with
    | O => RFail
    | S f =>
        if len =? 0 then RRet []
        else if len <? 8 then RBits (8 * len) (fun w => RRet (bytes_of_u64 (N.to_nat len) w))
        else RBits 64 (fun w => r <- io_read_chunks f (len - 8) ;; RRet (bytes_of_u64 8 w ++ r))
    end.
  Definition io_read (len : N) : rprog (list N) := io_read_chunks (S (N.to_nat (len / 8))) len.
End IoViews.

(* ------------------------------------------------------------------ *)
(* Bulk copy.  Generic over the other side's primitive operations. *)
Section Copy.
  Context {SR SW : Type}.
  Variable PR : rprims SR.
  Variable PW : wprims SW.

  (* traits/bits.rs: default BitRead::copy_to and BitWrite::copy_from (identical loops) *)
  Fixpoint copy_generic (cnt : nat) (n : N) (r : SR) (w : SW) : outcome (SR * SW) :=
    if n =? 0 then Ok (r, w) else
    match cnt with
    | O => Fuel
    | S c =>
        let to_read := N.min n 64 in
        obind (p_bits PR to_read r) (fun '(v, r') =>
        obind (q_bits PW v to_read w) (fun '(_, w') =>
        copy_generic c (n - to_read) r' w'))
    end.
  Definition copy_default (n : N) (r : SR) (w : SW) : outcome (SR * SW) :=
    copy_generic (S (N.to_nat (n / 64))) n r w.
End Copy.

Section CopySpecialised.
  Variable E : endian.
  Variable checks : bool.

  (* BufBitReader::copy_to (after the fix of D1/D2): drain the buffer with read_bits in
     pieces of <= 64 bits, then whole words, then the head of a last word *)
  Section CopyTo.
    Context {SW : Type}.
    Variable PW : wprims SW.
    Variable W : N.
    Let BB : N := 2 * W.

    Fixpoint drain (fuel : nat) (left : N) (r : breader) (w : SW) : outcome (breader * SW) :=
      if left =? 0 then Ok (r, w) else
      match fuel with
      | O => Fuel
      | S f =>
          let chunk := N.min left 64 in
          obind (br_read_bits E W chunk r) (fun '(v, r') =>
          obind (q_bits PW v chunk w) (fun '(_, w') => drain f (left - chunk) r' w'))
      end.

    Fixpoint copy_words (cnt : nat) (k : wsrc) (w : SW) : outcome (wsrc * SW) :=
      match cnt with
      | O => Ok (k, w)
      | S c => obind (src_read k) (fun '(x, k') =>
               obind (q_bits PW x W w) (fun '(_, w') => copy_words c k' w'))
      end.

    Definition br_copy_to (n : N) (r : breader) (w : SW) : outcome (breader * SW) :=
      let from_buffer := N.min n (br_bits r) in
      obind (drain 3 from_buffer r w) (fun '(r1, w1) =>
      let n1 := n - from_buffer in
      if n1 =? 0 then Ok (r1, w1) else
      let cnt := whole_words W n1 in
      obind (copy_words (N.to_nat cnt) (br_src r1) w1) (fun '(k2, w2) =>
      let n2 := n1 - cnt * W in
      obind (src_read k2) (fun '(x, k3) =>
      let bits' := W - n2 in
      match E with
      | BE =>
          oo' (wshr W x bits') (fun v =>
          obind (q_bits PW v n2 w2) (fun '(_, w3) =>
          oo' (wshl BB x (BB - 1 - bits')) (fun b0 => oo' (wshl BB b0 1) (fun b1 =>
          Ok (mk k3 b1 bits', w3)))))
      | LE =>
          let v := if checks && (n2 <? 64) then N.land x (2 ^ n2 - 1) else x in
          obind (q_bits PW v n2 w2) (fun '(_, w3) =>
          oo' (wshr BB x n2) (fun b => Ok (mk k3 b bits', w3)))
      end))).
  End CopyTo.

  (* BufBitWriter::copy_from (after the fix of D3) *)
  Section CopyFrom.
    Context {SR : Type}.
    Variable PR : rprims SR.
    Variable W : N.

    Fixpoint copy_from_words (cnt : nat) (r : SR) (k : wsink) : outcome (SR * wsink) :=
      match cnt with
      | O => Ok (r, k)
      | S c => obind (p_bits PR W r) (fun '(v, r') =>
               obind (sink_write k [wcast W v]) (fun k' => copy_from_words c r' k'))
      end.

    Definition bw_copy_from (n : N) (r : SR) (s : bwriter) : outcome (SR * bwriter) :=
      if 64 <? W then copy_default PR (bwprims E W checks) n r s else
      let sp := bw_space s in
      if n <? sp then
        obind (p_bits PR n r) (fun '(v, r') =>
        oo' (match E with
             | BE => match wshl W (bw_buffer s) n with
                     | Some b => Some (N.lor b (wcast W v)) | None => None end
             | LE => match wshr W (bw_buffer s) n with
                     | Some b => Some (N.lor b (wrotr W (wcast W v) n)) | None => None end
             end) (fun b =>
        Ok (r', {| bw_sink := bw_sink s; bw_buffer := b; bw_space := sp - n |})))
      else
        oo' (match E with
             | BE => match wshl W (bw_buffer s) (sp - 1) with Some b => wshl W b 1 | None => None end
             | LE => match wshr W (bw_buffer s) (sp - 1) with Some b => wshr W b 1 | None => None end
             end) (fun b0 =>
        obind (p_bits PR sp r) (fun '(v, r1) =>
        let b1 := match E with
                  | BE => N.lor b0 (wcast W v)
                  | LE => N.lor b0 (wrotr W (wcast W v) sp) end in
        let n1 := n - sp in
        obind (sink_write (bw_sink s) [b1]) (fun k1 =>
        obind (copy_from_words (N.to_nat (n1 / W)) r1 k1) (fun '(r2, k2) =>
        let n2 := n1 mod W in
        obind (p_bits PR n2 r2) (fun '(v2, r3) =>
        let b2 := match E with BE => wcast W v2 | LE => wrotr W (wcast W v2) n2 end in
        Ok (r3, {| bw_sink := k2; bw_buffer := b2; bw_space := W - n2 |})))))).
  End CopyFrom.
End CopySpecialised.

(* ------------------------------------------------------------------ *)
(* utils/count.rs: counting wrappers as primitive transformers over (state, counter) *)
Section Count.
  Context {S : Type}.
  Definition count_wprims (Q : wprims S) : wprims (S * N) :=
    {| q_bits := fun v n '(s, c) => omap (fun '(r, s') => (r, (s', c + r))) (q_bits Q v n s);
       q_unary := fun x '(s, c) => omap (fun '(r, s') => (r, (s', c + r))) (q_unary Q x s) |}.
  Definition count_rprims (P : rprims S) : rprims (S * N) :=
    {| p_bits := fun n '(s, c) => omap (fun '(r, s') => (r, (s', c + n))) (p_bits P n s);
       p_unary := fun '(s, c) => omap (fun '(r, s') => (r, (s', c + r + 1))) (p_unary P s);
       p_peek := fun n '(s, c) => omap (fun '(r, s') => (r, (s', c))) (p_peek P n s);
       p_skipap := fun n '(s, c) => omap (fun s' => (s', c + n)) (p_skipap P n s) |}.
End Count.
