(* CodesProofs5.v — bit-stream VByte = byte-level VByte written as 8-bit fields (C18 link);
   the remaining length functions. *)
From DSI Require Import Base Prog Codes CodeDefs Small BitFacts CodesProofs CodesProofs2 VByteProofs.
From Coq Require Import ZifyBool ZifyNat ZifyN.
Ltac Zify.zify_post_hook ::= Z.div_mod_to_equations.
Arguments N.add : simpl never. Arguments N.sub : simpl never. Arguments N.mul : simpl never.
Arguments N.div : simpl never. Arguments N.modulo : simpl never. Arguments N.pow : simpl never.
Arguments N.eqb : simpl never. Arguments N.ltb : simpl never. Arguments N.leb : simpl never.
Arguments N.testbit : simpl never. Arguments N.of_nat : simpl never. Arguments N.to_nat : simpl never.
Arguments N.log2 : simpl never. Arguments N.lxor : simpl never. Arguments N.land : simpl never.
Arguments N.lor : simpl never.
Open Scope prog_scope.

Section VByteBits.
  Variable E : endian.

  (* a byte list as 8-bit fields of the stream *)
  Definition bb (bs : list N) : bits := flat_map (fun b => fld E b 8) bs.
  Lemma bb_cons b r : bb (b :: r) = fld E b 8 ++ bb r.
  Proof. reflexivity. Qed.
  Lemma LEN_bb bs : LEN (bb bs) = 8 * N.of_nat (length bs).
  Proof.
    induction bs as [|b r IH]; [reflexivity|]. rewrite bb_cons, LEN_app, (LEN_fld E), IH. cbn [length]. lia.
  Qed.
  Lemma def_vbyte_bb le v : def_vbyte E le v = bb (def_vbyte_bytes le v).
  Proof. reflexivity. Qed.

  (* ---------------- write ---------------- *)
  Lemma write_bytes_run checks bs s : Forall (fun b => b < 256) bs ->
    wrun (swprims E checks) (write_bytes bs) s = Ok (LEN (bb bs), s ++ bb bs).
  Proof.
    revert s; induction bs as [|b r IH]; intros s Hb.
    - cbn. rewrite app_nil_r. reflexivity.
    - inversion Hb as [|? ? Hb1 Hb2]; subst. cbn [write_bytes]. rewrite wrun_bind.
      rewrite (wr_bits E checks b 8 ltac:(lia) (or_intror Hb1)). rewrite wrun_bind, IH by exact Hb2.
      cbn [wrun wret]. rewrite bb_cons, LEN_app, (LEN_fld E), app_assoc. do 2 f_equal. lia.
  Qed.

  Lemma vbyte_be_wr checks v : v < W64 -> wr E checks (write_vbyte_be v) (def_vbyte E false v).
  Proof.
    intros Hv s. unfold write_vbyte_be. rewrite (def_be v Hv). cbn [wlift].
    destruct (bytes_wf v _ Hv (or_introl (def_be v Hv))) as (Hl & Hb & _).
    destruct (10 <? N.of_nat (length (def_vbyte_bytes false v))) eqn:Hc; [lia|].
    rewrite write_bytes_run by exact Hb. reflexivity.
  Qed.
  Lemma vbyte_le_wr checks v : v < W64 -> wr E checks (write_vbyte_le v) (def_vbyte E true v).
  Proof.
    intros Hv s. unfold write_vbyte_le. rewrite (def_le v Hv). cbn [wlift].
    destruct (bytes_wf v _ Hv (or_intror (def_le v Hv))) as (Hl & Hb & _).
    rewrite write_bytes_run by exact Hb. reflexivity.
  Qed.

  (* ---------------- read: the bit-level loops simulate the byte-level ones ---------------- *)
  Lemma read_byte strict cap b r post pos pk (k : N -> rprog N) : b < 256 ->
    rrun (sprims E strict cap) (RBits 8 k) (mkr (bb (b :: r) ++ post) pos pk)
    = rrun (sprims E strict cap) (k b) (mkr (bb r ++ post) (pos + 8) 0).
  Proof.
    intros Hb. cbn [rrun sprims p_bits]. rewrite bb_cons, <- app_assoc. unfold fld.
    rewrite s_bits_field by lia. rewrite N.mod_small by (change (2 ^ 8) with 256; exact Hb). reflexivity.
  Qed.

  Lemma be_loop_sim strict cap fuel : forall byte value src v rest post pos pk,
    Forall (fun b => b < 256) src -> byte / 128 <> 0 ->
    vbyte_read_be_loop fuel value src = Ok (v, rest) ->
    rrun (sprims E strict cap) (read_vbyte_be_loop fuel byte value) (mkr (bb src ++ post) pos pk)
    = Ok (v, mkr (bb rest ++ post) (pos + 8 * (N.of_nat (length src) - N.of_nat (length rest))) (if (length src =? length rest)%nat then pk else 0))
    /\ (length rest < length src)%nat.
  Proof.
    induction fuel as [|f IH]; intros byte value src v rest post pos pk Hs Hb H; [discriminate|].
    cbn [vbyte_read_be_loop] in H. destruct src as [|b r]; [discriminate|].
    inversion Hs as [|? ? Hb1 Hb2]; subst.
    destruct (add64 value 1) as [v1|] eqn:Ha; [|discriminate].
    cbn [read_vbyte_be_loop]. destruct (byte / 128 =? 0) eqn:Hc; [lia|].
    rewrite Ha. cbn [rlift]. rewrite read_byte by exact Hb1.
    destruct (b / 128 =? 0) eqn:Hd.
    - injection H as <- <-.
      replace (read_vbyte_be_loop f b (N.lor (v1 * 128 mod W64) (N.land b 127))) with (RRet (A := N) (N.lor (v1 * 128 mod W64) (N.land b 127))).
      2:{ destruct f; cbn [read_vbyte_be_loop]; rewrite Hd; reflexivity. }
      cbn [rrun length]. split; [|lia].
      replace (S (length r) =? length r)%nat with false by (symmetry; apply Nat.eqb_neq; lia).
      do 3 f_equal. lia.
    - destruct (IH b _ r v rest post (pos + 8) 0 Hb2 ltac:(lia) H) as [-> Hlt]. cbn [length]. split; [|lia].
      replace (S (length r) =? length rest)%nat with false by (symmetry; apply Nat.eqb_neq; lia).
      destruct (length r =? length rest)%nat eqn:He; [apply Nat.eqb_eq in He; lia|].
      do 3 f_equal. lia.
  Qed.

  Lemma vbyte_read_be_sim strict cap src v rest post pos pk :
    Forall (fun b => b < 256) src -> vbyte_read_be src = Ok (v, rest) ->
    exists pk', rrun (sprims E strict cap) read_vbyte_be (mkr (bb src ++ post) pos pk)
    = Ok (v, mkr (bb rest ++ post) (pos + 8 * (N.of_nat (length src) - N.of_nat (length rest))) pk').
  Proof.
    intros Hs H. unfold vbyte_read_be in H. destruct src as [|b r]; [discriminate|].
    inversion Hs as [|? ? Hb1 Hb2]; subst. unfold read_vbyte_be. rewrite read_byte by exact Hb1.
    destruct (b / 128 =? 0) eqn:Hd.
    - injection H as <- <-. exists 0. destruct vbyte_fuel; cbn [read_vbyte_be_loop]; rewrite Hd; cbn [rrun length];
        do 3 f_equal; lia.
    - destruct (be_loop_sim strict cap 24 b _ r v rest post (pos + 8) 0 Hb2 ltac:(lia) H) as [Hr Hlt].
      unfold vbyte_fuel. rewrite Hr. eexists. cbn [length]. do 3 f_equal. lia.
  Qed.

  Lemma le_loop_sim strict cap fuel : forall result shift src v rest post pos pk,
    Forall (fun b => b < 256) src ->
    vbyte_read_le_loop fuel result shift src = Ok (v, rest) ->
    rrun (sprims E strict cap) (read_vbyte_le_loop fuel result shift) (mkr (bb src ++ post) pos pk)
    = Ok (v, mkr (bb rest ++ post) (pos + 8 * (N.of_nat (length src) - N.of_nat (length rest))) 0)
    /\ (length rest < length src)%nat.
  Proof.
    induction fuel as [|f IH]; intros result shift src v rest post pos pk Hs H; [discriminate|].
    cbn [vbyte_read_le_loop] in H. destruct src as [|b r]; [discriminate|].
    inversion Hs as [|? ? Hb1 Hb2]; subst.
    cbn [read_vbyte_le_loop]. rewrite read_byte by exact Hb1.
    destruct (shl64 (N.land b 127) shift) as [t|] eqn:Ht; [|discriminate]. cbn [rlift].
    destruct (add64 result t) as [r1|] eqn:Ha; [|discriminate]. cbn [rlift].
    destruct (b / 128 =? 0) eqn:Hd.
    - injection H as <- <-. cbn [rrun length]. split; [|lia]. do 3 f_equal. lia.
    - destruct (shl64 1 (shift + 7)) as [o|] eqn:Ho; [|discriminate]. cbn [rlift].
      destruct (add64 r1 o) as [r2|] eqn:Ha2; [|discriminate]. cbn [rlift].
      destruct (IH r2 (shift + 7) r v rest post (pos + 8) 0 Hb2 H) as [-> Hlt]. cbn [length]. split; [|lia].
      do 3 f_equal. lia.
  Qed.

  Lemma vbyte_be_rd v : v < W64 -> rd E 0 read_vbyte_be (def_vbyte E false v) v.
  Proof.
    intros Hv strict cap post pos pk _.
    destruct (roundtrip_be v [] Hv) as (bs & Hbs & Hr). rewrite (def_be v Hv) in Hbs. injection Hbs as <-.
    rewrite app_nil_r in Hr.
    destruct (bytes_wf v _ Hv (or_introl (def_be v Hv))) as (_ & Hb & _).
    rewrite def_vbyte_bb.
    destruct (vbyte_read_be_sim strict cap _ v [] post pos pk Hb Hr) as [pk' ->].
    exists pk'. rewrite LEN_bb. cbn [bb flat_map app length]. do 3 f_equal. lia.
  Qed.
  Lemma vbyte_le_rd v : v < W64 -> rd E 0 read_vbyte_le (def_vbyte E true v) v.
  Proof.
    intros Hv strict cap post pos pk _.
    destruct (roundtrip_le v [] Hv) as (bs & Hbs & Hr). rewrite (def_le v Hv) in Hbs. injection Hbs as <-.
    rewrite app_nil_r in Hr.
    destruct (bytes_wf v _ Hv (or_intror (def_le v Hv))) as (_ & Hb & _).
    unfold vbyte_read_le in Hr.
    destruct (le_loop_sim strict cap 24 0 0 _ v [] post pos pk Hb Hr) as [Hrr _].
    rewrite def_vbyte_bb. unfold read_vbyte_le, vbyte_fuel. rewrite Hrr.
    exists 0. rewrite LEN_bb. cbn [bb flat_map app length]. do 3 f_equal. lia.
  Qed.

  Lemma bit_len_vbyte_ok le v : v < W64 -> bit_len_vbyte v = Some (LEN (def_vbyte E le v)).
  Proof.
    intros Hv. unfold bit_len_vbyte. rewrite def_vbyte_bb, LEN_bb. destruct le.
    - rewrite (len_le v _ Hv (def_le v Hv)). reflexivity.
    - rewrite (len_be v _ Hv (def_be v Hv)). reflexivity.
  Qed.

  (* ---------------- remaining length functions ---------------- *)
  Lemma len_rice_ok n k : k < 64 -> len_rice n k = Some (LEN (def_rice E k n)).
  Proof. intros Hk. unfold len_rice. rewrite shr64_ok by exact Hk. rewrite def_rice_len. reflexivity. Qed.
  Lemma len_pi_ok n k : k < 64 -> n < U64MAX -> len_pi n k = Some (LEN (def_pi E k n)).
  Proof.
    intros Hk Hn. unfold len_pi, def_pi.
    assert (n + 1 < W64) as H1 by (unfold U64MAX in Hn; unfold W64; lia).
    rewrite add64_ok by exact H1. rewrite ilog2_ok by lia. rewrite len_rice_ok by exact Hk.
    rewrite LEN_app, (LEN_fld E). reflexivity.
  Qed.
  Lemma len_golomb_ok n b : 0 < b -> b < W64 -> len_golomb n b = Some (LEN (def_golomb E b n)).
  Proof.
    intros Hb HbW. unfold len_golomb, def_golomb. rewrite div64_ok by exact Hb.
    rewrite LEN_app, LEN_unary, (len_minimal_binary_spec E) by assumption. reflexivity.
  Qed.
End VByteBits.
