(* Base.v — outcomes, u64 arithmetic as Rust performs it, bit lists (L0 vocabulary).
   Model only: no proofs here, so the executable model still builds when a proof breaks. *)
From Coq Require Export List NArith ZArith Bool Lia.
Export ListNotations.
Open Scope N_scope.

(* ------------------------------------------------------------------ *)
(* Outcomes of an operation of the modelled library.
   Err  = the Rust function returned Err(_) (end of a strict stream, sink full, ...)
   Fail = the Rust code panics in a debug build / wraps or misbehaves in release
          (arithmetic overflow, shift >= width, failed assert!/debug_assert!, OOB index)
   Fuel = the model's loop bound was exhausted (never a normal-looking value). *)
Inductive outcome (A : Type) : Type :=
| Ok (a : A) | Err | Fail | Fuel.
Arguments Ok {A} a. Arguments Err {A}. Arguments Fail {A}. Arguments Fuel {A}.

Definition obind {A B} (o : outcome A) (f : A -> outcome B) : outcome B :=
  match o with Ok a => f a | Err => Err | Fail => Fail | Fuel => Fuel end.
Definition omap {A B} (f : A -> B) (o : outcome A) : outcome B :=
  match o with Ok a => Ok (f a) | Err => Err | Fail => Fail | Fuel => Fuel end.
Definition of_opt {A} (o : option A) : outcome A :=
  match o with Some a => Ok a | None => Fail end.

Inductive endian := BE | LE.
Definition endian_eqb (a b : endian) : bool :=
  match a, b with BE, BE => true | LE, LE => true | _, _ => false end.

(* ------------------------------------------------------------------ *)
(* u64 / usize arithmetic.  Values are N, assumed < 2^64 on entry.
   Checked operators return None where Rust panics with overflow checks on
   (and wraps without): theorems prove None unreachable in the domain. *)
Definition W64 : N := 18446744073709551616. (* 2^64 *)
Definition U64MAX : N := 18446744073709551615.

Definition add64 (a b : N) : option N := if a + b <? W64 then Some (a + b) else None.
Definition sub64 (a b : N) : option N := if b <=? a then Some (a - b) else None.
Definition mul64 (a b : N) : option N := if a * b <? W64 then Some (a * b) else None.
(* `a << k`: panics iff k >= 64; value bits shifted out are silently dropped *)
Definition shl64 (a k : N) : option N := if k <? 64 then Some ((a * 2 ^ k) mod W64) else None.
Definition shr64 (a k : N) : option N := if k <? 64 then Some (a / 2 ^ k) else None.
Definition wsub64 (a b : N) : N := (a + W64 - b mod W64) mod W64.
Definition ilog2 (a : N) : option N := if a =? 0 then None else Some (N.log2 a).
Definition div64 (a b : N) : option N := if b =? 0 then None else Some (a / b).
Definition rem64 (a b : N) : option N := if b =? 0 then None else Some (a mod b).
(* (1u128 << n).wrapping_sub(1) as u64, for n <= 64 (n < 128 never panics) *)
Definition mask_u128 (n : N) : N := (2 ^ n - 1) mod W64.

(* ------------------------------------------------------------------ *)
(* Bit lists in stream order. *)
Definition bits := list bool.

(* the n low bits of v, least significant first *)
Fixpoint field_le_from (v : N) (i : N) (n : nat) : bits :=
  match n with O => [] | S m => N.testbit v i :: field_le_from v (N.succ i) m end.
Definition field_le (v : N) (n : nat) : bits := field_le_from v 0 n.
Definition field_be (v : N) (n : nat) : bits := rev (field_le v n).
Definition field (E : endian) (v : N) (n : nat) : bits :=
  match E with BE => field_be v n | LE => field_le v n end.

(* value of a bit list read least-significant-first / most-significant-first *)
Fixpoint val_le (bs : bits) : N :=
  match bs with [] => 0 | b :: r => N.b2n b + 2 * val_le r end.
Fixpoint val_be_acc (acc : N) (bs : bits) : N :=
  match bs with [] => acc | b :: r => val_be_acc (2 * acc + N.b2n b) r end.
Definition val_be (bs : bits) : N := val_be_acc 0 bs.
Definition val (E : endian) (bs : bits) : N :=
  match E with BE => val_be bs | LE => val_le bs end.

Definition zeros (n : nat) : bits := repeat false n.
Definition unary (x : N) : bits := zeros (N.to_nat x) ++ [true].

(* number of leading zeros before the first one; None if no one *)
Fixpoint count_zeros (bs : bits) : option N :=
  match bs with
  | [] => None
  | true :: _ => Some 0
  | false :: r => match count_zeros r with Some k => Some (N.succ k) | None => None end
  end.

(* take n bits, padding with zeros (zero-extended streams) *)
Fixpoint take_pad (n : nat) (bs : bits) : bits :=
  match n with
  | O => []
  | S m => match bs with [] => false :: take_pad m [] | b :: r => b :: take_pad m r end
  end.

(* bytes of a bit list in the canonical layout of property C01:
   stream bit i is stored in byte i/8 at bit 7-(i mod 8) (BE) or (i mod 8) (LE) *)
Fixpoint bytes_of_bits (E : endian) (fuel : nat) (bs : bits) : list N :=
  match fuel with
  | O => []
  | S f => match bs with
           | [] => []
           | _ => val E (take_pad 8 bs) :: bytes_of_bits E f (skipn 8 bs)
           end
  end.
Definition image (E : endian) (bs : bits) : list N := bytes_of_bits E (S (length bs)) bs.

Definition bits_of_byte (E : endian) (b : N) : bits := field E b 8.
Definition bits_of_bytes (E : endian) (bytes : list N) : bits :=
  flat_map (bits_of_byte E) bytes.
