(* CursorModel.v — WordAdapter<W, std::io::Cursor<Vec<u8>>> (impls/word_adapter.rs) under
   histories of read_word / write_word / word_pos / set_word_pos, including byte streams
   whose length is not a multiple of the word size ("ragged tail").
   Model only (no proofs): total, computable, data over N and list N.

   std behaviour modelled (library/std/src/io/cursor.rs of the installed toolchain, 1.95;
   checked by running std itself):
   * Cursor::read_exact(buf): if buf.len() <= len - min(pos, len) the bytes are copied and
     pos += buf.len(); otherwise Err(UnexpectedEof) and pos := len — IN EVERY failing case,
     also when pos was already beyond the end (the position then moves BACK to len).
     Toolchains before 1.80 left pos unchanged on every failure; `run_cursor_beyond` flags the
     histories in which a read is attempted from beyond the end, should a caller want to set
     those apart.  An empty buffer always succeeds.
   * Write for Cursor<Vec<u8>> (vec_write_all): desired = pos + buf.len(); if that exceeds
     isize::MAX, Vec::reserve panics ("capacity overflow") = Fail; otherwise the vector is
     padded with zeros up to pos if pos > len, the bytes are copied over [pos, pos+n) (the
     vector grows if needed), pos += n.  No Err case.  (Below isize::MAX the real code can still
     abort the process when the allocation fails: out of the model's scope.)
   * Seek::seek(SeekFrom::Start(p)) always succeeds: pos := p.  stream_position never fails.
   * set_word_pos multiplies word_index * BYTES in u64: overflow panics with overflow checks
     (debug profile) = Fail (Small.adapter_seek = None); a release build wraps instead. *)
From DSI Require Export Small.

Record cur := { cu_bytes : list N; cu_pos : N }.    (* Cursor<Vec<u8>>: contents, byte position *)

Definition cur_len (c : cur) : N := N.of_nat (length (cu_bytes c)).
Definition ISIZE_MAX : N := 9223372036854775807.   (* 2^63 - 1: maximal Vec<u8> capacity *)

(* the bytes [pos, pos + nb) of a byte list (fewer if the list is shorter) *)
Definition slice (bs : list N) (pos nb : N) : list N :=
  firstn (N.to_nat nb) (skipn (N.to_nat pos) bs).

(* overwrite / append `new` at byte offset pos, zero-filling a gap beyond the end *)
Definition splice (old : list N) (pos : nat) (new : list N) : list N :=
  firstn pos old ++ repeat 0 (pos - length old) ++ new ++ skipn (pos + length new) old.

Definition cur_read_exact (nb : N) (c : cur) : outcome (list N) * cur :=
  if (nb =? 0) || (cu_pos c + nb <=? cur_len c)
  then (Ok (slice (cu_bytes c) (cu_pos c) nb),
        {| cu_bytes := cu_bytes c; cu_pos := cu_pos c + nb |})
  else (Err, {| cu_bytes := cu_bytes c; cu_pos := cur_len c |}).

Definition cur_write_all (new : list N) (c : cur) : outcome cur :=
  let n := N.of_nat (length new) in
  if ISIZE_MAX <? cu_pos c + n then Fail
  else Ok {| cu_bytes := splice (cu_bytes c) (N.to_nat (cu_pos c)) new; cu_pos := cu_pos c + n |}.

Definition cur_seek (p : N) (c : cur) : cur := {| cu_bytes := cu_bytes c; cu_pos := p |}.

Definition cur_word_pos (W : N) (c : cur) : N := adapter_word_pos W (cu_pos c).

(* ------------------------------------------------------------------ *)
(* the adapter on top (native byte order = little endian) *)
Definition ad_read (W : N) (c : cur) : outcome N * cur :=
  let '(o, c') := cur_read_exact (W / 8) c in (omap of_le_bytes o, c').
Definition ad_write (W w : N) (c : cur) : outcome cur := cur_write_all (word_bytes LE W w) c.
Definition ad_pos (W : N) (c : cur) : N := cur_word_pos W c.
Definition ad_seek (W k : N) (c : cur) : outcome cur :=
  match adapter_seek W k with Some p => Ok (cur_seek p c) | None => Fail end.

(* ------------------------------------------------------------------ *)
(* one operation of the harness (harness/src/pure.rs, adapter_run!, mode `_`):
   [0] read_word, [1; w] write_word (w as W), [2] word_pos, [3; k] (or any other code)
   set_word_pos (k as u64); missing fields read as 0.
   Result: the group pushed by the harness and the next state; None = the call panics. *)
Definition cursor_step (W : N) (c : cur) (op : list N) : option (list N * cur) :=
  match nth 0 op 0 with
  | 0 => match ad_read W c with
         | (Ok w, c') => Some ([0; w], c')
         | (Err, c') => Some ([1], c')
         | _ => None
         end
  | 1 => match ad_write W (nth 1 op 0) c with
         | Ok c' => Some ([0; 0], c')
         | Err => Some ([1], c)
         | _ => None
         end
  | 2 => Some ([0; ad_pos W c], c)
  | _ => match ad_seek W (nth 1 op 0 mod W64) c with
         | Ok c' => Some ([0; 0], c')
         | Err => Some ([1], c)
         | _ => None
         end
  end.

(* after an error the history continues with the next operation *)
Fixpoint run_cursor_opt (W : N) (c : cur) (ops : list (list N)) : option (list (list N)) :=
  match ops with
  | [] => Some [99 :: cu_bytes c]
  | op :: r =>
      match cursor_step W c op with
      | Some (g, c') => option_map (cons g) (run_cursor_opt W c' r)
      | None => None
      end
  end.

(* a panic anywhere replaces the whole output by [[2]] (catch_unwind in run_adapter) *)
Definition run_cursor (W : N) (c : cur) (ops : list (list N)) : list (list N) :=
  match run_cursor_opt W c ops with Some l => l | None => [[2]] end.

(* the case as the harness builds it: data bytes are cast `as u8`, position 0 *)
Definition cursor_case (W : N) (data : list N) (ops : list (list N)) : list (list N) :=
  run_cursor W {| cu_bytes := map (fun x => x mod 256) data; cu_pos := 0 |} ops.

(* true iff some read_word of the history is attempted with the position beyond the end
   (the one place where toolchains >= 1.80 move the position backwards) *)
Fixpoint run_cursor_beyond (W : N) (c : cur) (ops : list (list N)) : bool :=
  match ops with
  | [] => false
  | op :: r =>
      ((nth 0 op 0 =? 0) && (cur_len c <? cu_pos c)) ||
      match cursor_step W c op with
      | Some (_, c') => run_cursor_beyond W c' r
      | None => false
      end
  end.
