(* StatsProofs.v — property C15: code statistics (utils/stats.rs, model Stats.v) are exact,
   mergeable, order-insensitive (the logical core of thread-safety) and best_code reports the
   minimum tracked total together with the code it belongs to.

   Method: a field-wise view of the record.  A `fld` names one tracked counter (a scalar or one
   entry of one of the five vectors); `get f s` reads it, `flen f n` is the length function the
   Rust adds for value n, `shape s` is the five vector lengths.  A `stats` value is determined by
   its shape and its fields (stats_ext), and update_many / stats_add / observe are characterised
   field by field (update_many_iff, stats_add_iff, observe_from_iff).  Everything else is
   arithmetic on the unbounded totals `total_len`.

   The generated constants (stats_sizes, stats_offsets, best_code_offsets) are opaque data here;
   the only fact used about them is off_boff (stats_offsets and best_code_offsets agree), proved
   by computation, and only for C15_best_code_exact. *)
From Coq Require Import List NArith ZArith Lia Permutation.
From Coq Require Import ZifyBool ZifyNat ZifyN.
Ltac Zify.zify_post_hook ::= Z.div_mod_to_equations.
From DSI Require Import Stats.
Import List ListNotations.
Open Scope N_scope.

#[local] Arguments N.add : simpl never.
#[local] Arguments N.sub : simpl never.
#[local] Arguments N.mul : simpl never.
#[local] Arguments N.eqb : simpl never.
#[local] Arguments N.ltb : simpl never.
#[local] Arguments N.leb : simpl never.
#[local] Arguments N.of_nat : simpl never.
#[local] Arguments N.to_nat : simpl never.

(* ------------------------------------------------------------------ *)
(* small generic facts *)

Lemma option_ext {A} (x y : option A) : (forall s, x = Some s <-> y = Some s) -> x = y.
Proof.
  intros H. destruct x as [a|].
  - symmetry. apply H. reflexivity.
  - destruct y as [b|]; auto. apply H. reflexivity.
Qed.

Lemma add64_Some a b r : add64 a b = Some r <-> r = a + b /\ a + b < W64.
Proof.
  unfold add64. destruct (a + b <? W64) eqn:E.
  - apply N.ltb_lt in E. split.
    + intros H; inversion H; auto.
    + intros [-> _]; auto.
  - apply N.ltb_ge in E. split; [discriminate|]. intros [_ H]. lia.
Qed.

Lemma upd1_Some o c v v' :
  upd1 o c v = Some v' <-> exists ln, o = Some ln /\ v' = v + ln * c /\ v + ln * c < W64.
Proof.
  unfold upd1. destruct o as [ln|].
  - unfold mul64, add64. destruct (ln * c <? W64) eqn:E1.
    + destruct (v + ln * c <? W64) eqn:E2.
      * split.
        -- intros H; inversion H. exists ln. repeat split. lia.
        -- intros (l & H1 & H2 & H3). inversion H1; subst; auto.
      * split; [discriminate|]. intros (l & H1 & H2 & H3). inversion H1; subst. lia.
    + split; [discriminate|]. intros (l & H1 & H2 & H3). inversion H1; subst. lia.
  - split; [discriminate|]. intros (l & H1 & _). discriminate.
Qed.

Lemma upd_vec_cons len idx c v r :
  upd_vec len idx c (v :: r) =
  match upd1 (len idx) c v with
  | Some v' => match upd_vec len (idx + 1) c r with Some r' => Some (v' :: r') | None => None end
  | None => None
  end.
Proof.
  cbn [upd_vec]. unfold upd1. destruct (len idx); auto. destruct (mul64 n c); auto.
Qed.

Lemma upd_vec_spec len c l : forall idx l',
  upd_vec len idx c l = Some l' ->
  length l' = length l /\
  forall i, (i < length l)%nat ->
    exists ln, len (idx + N.of_nat i) = Some ln /\
               nth i l' 0 = nth i l 0 + ln * c /\ nth i l 0 + ln * c < W64.
Proof.
  induction l as [|v r IH]; intros idx l' H.
  - cbn in H. inversion H. split; auto. cbn [length]. intros i Hi. lia.
  - rewrite upd_vec_cons in H.
    destruct (upd1 (len idx) c v) as [v'|] eqn:E1; [|discriminate].
    destruct (upd_vec len (idx + 1) c r) as [r'|] eqn:E2; [|discriminate].
    inversion H; subst l'. apply IH in E2. destruct E2 as [L E2].
    apply upd1_Some in E1. destruct E1 as (ln & Hl & Hv & Hlt).
    split; [cbn [length]; lia|].
    intros [|i] Hi; cbn [nth].
    + exists ln. replace (idx + N.of_nat 0) with idx by lia. auto.
    + cbn [length] in Hi. destruct (E2 i ltac:(lia)) as (ln' & Hl' & Hv' & Hlt').
      exists ln'. replace (idx + N.of_nat (S i)) with (idx + 1 + N.of_nat i) by lia. auto.
Qed.

Lemma upd_vec_def len c l : forall idx,
  (forall i, (i < length l)%nat ->
     exists ln, len (idx + N.of_nat i) = Some ln /\ nth i l 0 + ln * c < W64) ->
  exists l', upd_vec len idx c l = Some l'.
Proof.
  induction l as [|v r IH]; intros idx H.
  - exists []. reflexivity.
  - rewrite upd_vec_cons.
    destruct (H 0%nat ltac:(cbn [length]; lia)) as (ln & Hl & Hlt). cbn [nth] in Hlt.
    replace (idx + N.of_nat 0) with idx in Hl by lia.
    assert (E : upd1 (len idx) c v = Some (v + ln * c)) by (apply upd1_Some; exists ln; auto).
    rewrite E.
    destruct (IH (idx + 1)) as [r' Hr'].
    + intros i Hi. destruct (H (S i) ltac:(cbn [length]; lia)) as (ln' & Hl' & Hlt').
      exists ln'. replace (idx + 1 + N.of_nat i) with (idx + N.of_nat (S i)) by lia. auto.
    + rewrite Hr'. eexists; reflexivity.
Qed.

Lemma add_vec_spec : forall a b l, length a = length b ->
  add_vec a b = Some l ->
  length l = length a /\
  forall i, (i < length a)%nat ->
    nth i l 0 = nth i a 0 + nth i b 0 /\ nth i a 0 + nth i b 0 < W64.
Proof.
  induction a as [|x ra IH]; intros b l L H.
  - cbn in H. inversion H. split; auto. cbn [length]. intros; lia.
  - destruct b as [|y rb]; [discriminate|]. cbn [add_vec] in H.
    destruct (add64 x y) as [z|] eqn:E1; [|discriminate].
    destruct (add_vec ra rb) as [r|] eqn:E2; [|discriminate].
    inversion H; subst l. cbn [length] in L.
    apply IH in E2; [|lia]. destruct E2 as [L2 E2]. apply add64_Some in E1.
    split; [cbn [length]; lia|].
    intros [|i] Hi; cbn [nth]; [lia|]. cbn [length] in Hi. apply E2. lia.
Qed.

Lemma add_vec_def : forall a b, length a = length b ->
  (forall i, (i < length a)%nat -> nth i a 0 + nth i b 0 < W64) ->
  exists l, add_vec a b = Some l.
Proof.
  induction a as [|x ra IH]; intros b L H.
  - exists []. reflexivity.
  - destruct b as [|y rb]; [discriminate|]. cbn [add_vec]. cbn [length] in L.
    pose proof (H 0%nat ltac:(cbn [length]; lia)) as H0. cbn [nth] in H0.
    assert (E : add64 x y = Some (x + y)) by (apply add64_Some; auto). rewrite E.
    destruct (IH rb ltac:(lia)) as [r Hr].
    + intros i Hi. apply (H (S i)). cbn [length]. lia.
    + rewrite Hr. eexists; reflexivity.
Qed.

(* ------------------------------------------------------------------ *)
(* the field-wise view *)

Inductive fld :=
| FTotal | FUnary | FGamma | FDelta | FOmega | FVByte
| FZeta (i : nat) | FGolomb (i : nat) | FExpGolomb (i : nat) | FRice (i : nat) | FPi (i : nat).

Definition get (f : fld) (s : stats) : N :=
  match f with
  | FTotal => st_total s | FUnary => st_unary s | FGamma => st_gamma s
  | FDelta => st_delta s | FOmega => st_omega s | FVByte => st_vbyte s
  | FZeta i => nth i (st_zeta s) 0 | FGolomb i => nth i (st_golomb s) 0
  | FExpGolomb i => nth i (st_exp_golomb s) 0 | FRice i => nth i (st_rice s) 0
  | FPi i => nth i (st_pi s) 0
  end.

(* the number the Rust adds (times the multiplicity) to field f for the value n.
   Vector entry i of family j is the code with parameter off j + i. *)
Definition flen (f : fld) (n : N) : option N :=
  match f with
  | FTotal => Some 1
  | FUnary => add64 n 1
  | FGamma => len_gamma the_tables buf_params n
  | FDelta => len_delta the_tables buf_params n
  | FOmega => len_omega n
  | FVByte => bit_len_vbyte n
  | FZeta i => len_zeta the_tables buf_params n (off 0 + N.of_nat i)
  | FGolomb i => len_golomb n (off 1 + N.of_nat i)
  | FExpGolomb i => len_exp_golomb the_tables buf_params n (off 2 + N.of_nat i)
  | FRice i => len_rice n (off 3 + N.of_nat i)
  | FPi i => len_pi n (off 4 + N.of_nat i)
  end.

Definition shape (s : stats) : list nat :=
  [length (st_zeta s); length (st_golomb s); length (st_exp_golomb s);
   length (st_rice s); length (st_pi s)].

Definition valid (sh : list nat) (f : fld) : Prop :=
  match f with
  | FZeta i => (i < nth 0 sh 0)%nat | FGolomb i => (i < nth 1 sh 0)%nat
  | FExpGolomb i => (i < nth 2 sh 0)%nat | FRice i => (i < nth 3 sh 0)%nat
  | FPi i => (i < nth 4 sh 0)%nat
  | _ => True
  end.

(* the generated sizes *)
Definition sizes : list nat := [sz 0; sz 1; sz 2; sz 3; sz 4].
(* s has the vector lengths CodesStats::default() creates *)
Definition shaped (s : stats) : Prop := shape s = sizes.
(* every tracked counter is a u64 *)
Definition fits (s : stats) : Prop := forall f, valid (shape s) f -> get f s < W64.

Lemma stats_ext a b :
  shape a = shape b -> (forall f, valid (shape a) f -> get f a = get f b) -> a = b.
Proof.
  destruct a as [a0 a1 a2 a3 a4 a5 a6 a7 a8 a9 a10], b as [b0 b1 b2 b3 b4 b5 b6 b7 b8 b9 b10].
  unfold shape. cbn [st_zeta st_golomb st_exp_golomb st_rice st_pi].
  intros Hs H. injection Hs as H1 H2 H3 H4 H5.
  pose proof (H FTotal I) as E0. pose proof (H FUnary I) as E1. pose proof (H FGamma I) as E2.
  pose proof (H FDelta I) as E3. pose proof (H FOmega I) as E4. pose proof (H FVByte I) as E5.
  cbn [get st_total st_unary st_gamma st_delta st_omega st_vbyte] in E0, E1, E2, E3, E4, E5.
  subst.
  f_equal.
  - apply nth_ext with (d := 0) (d' := 0); auto. intros i Hi. apply (H (FZeta i)). exact Hi.
  - apply nth_ext with (d := 0) (d' := 0); auto. intros i Hi. apply (H (FGolomb i)). exact Hi.
  - apply nth_ext with (d := 0) (d' := 0); auto. intros i Hi. apply (H (FExpGolomb i)). exact Hi.
  - apply nth_ext with (d := 0) (d' := 0); auto. intros i Hi. apply (H (FRice i)). exact Hi.
  - apply nth_ext with (d := 0) (d' := 0); auto. intros i Hi. apply (H (FPi i)). exact Hi.
Qed.

Lemma shape_default : shape stats_default = sizes.
Proof.
  unfold shape, stats_default, sizes. cbn [st_zeta st_golomb st_exp_golomb st_rice st_pi].
  rewrite !repeat_length. reflexivity.
Qed.

Lemma get_default f : get f stats_default = 0.
Proof.
  destruct f; unfold stats_default;
    cbn [get st_total st_unary st_gamma st_delta st_omega st_vbyte
             st_zeta st_golomb st_exp_golomb st_rice st_pi];
    auto; apply nth_repeat.
Qed.

Lemma fits_default : fits stats_default.
Proof. intros f _. rewrite get_default. unfold W64. lia. Qed.

(* fits, spelled out on the flat view used by the harness *)
Lemma Forall_nth_lt (l : list N) :
  (forall i, (i < length l)%nat -> nth i l 0 < W64) -> Forall (fun x => x < W64) l.
Proof.
  intros H. apply Forall_forall. intros x Hx.
  destruct (In_nth l x 0 Hx) as (i & Hi & <-). auto.
Qed.

Lemma fits_flat s : fits s -> Forall (fun x => x < W64) (stats_flat s).
Proof.
  intros H. unfold stats_flat.
  rewrite !Forall_app. split; [|split; [|split; [|split; [|split]]]].
  - repeat constructor.
    + apply (H FTotal I). + apply (H FUnary I). + apply (H FGamma I).
    + apply (H FDelta I). + apply (H FOmega I). + apply (H FVByte I).
  - apply Forall_nth_lt. intros i Hi. apply (H (FZeta i)). exact Hi.
  - apply Forall_nth_lt. intros i Hi. apply (H (FGolomb i)). exact Hi.
  - apply Forall_nth_lt. intros i Hi. apply (H (FExpGolomb i)). exact Hi.
  - apply Forall_nth_lt. intros i Hi. apply (H (FRice i)). exact Hi.
  - apply Forall_nth_lt. intros i Hi. apply (H (FPi i)). exact Hi.
Qed.

(* ------------------------------------------------------------------ *)
(* update_many, field by field *)

Definition upd_rel (s : stats) (n c : N) (s' : stats) : Prop :=
  shape s' = shape s /\
  forall f, valid (shape s) f ->
    exists ln, flen f n = Some ln /\ get f s' = get f s + ln * c /\ get f s + ln * c < W64.

Ltac dmatch :=
  match goal with
  | |- (match ?x with Some _ => _ | None => _ end) = _ -> _ =>
      let E := fresh "E" in destruct x eqn:E; [|discriminate]
  end.

Lemma update_many_spec s n c s' : update_many s n c = Some s' -> upd_rel s n c s'.
Proof.
  unfold update_many. cbv zeta.
  do 11 dmatch. intros H; inversion H; subst s'; clear H.
  apply add64_Some in E. apply upd1_Some in E0, E1, E2, E3, E4.
  apply upd_vec_spec in E5, E6, E7, E8, E9.
  destruct E5 as [L5 E5], E6 as [L6 E6], E7 as [L7 E7], E8 as [L8 E8], E9 as [L9 E9].
  split.
  - unfold shape. cbn [st_zeta st_golomb st_exp_golomb st_rice st_pi]. congruence.
  - intros f Hv.
    destruct f;
      cbn [get flen valid shape nth st_total st_unary st_gamma st_delta st_omega st_vbyte
               st_zeta st_golomb st_exp_golomb st_rice st_pi] in *.
    + exists 1. split; auto. lia.
    + exact E0.
    + exact E1.
    + exact E2.
    + exact E3.
    + exact E4.
    + exact (E5 i Hv).
    + exact (E6 i Hv).
    + exact (E7 i Hv).
    + exact (E8 i Hv).
    + exact (E9 i Hv).
Qed.

Lemma update_many_def s n c :
  (forall f, valid (shape s) f ->
     exists ln, flen f n = Some ln /\ get f s + ln * c < W64) ->
  exists s', update_many s n c = Some s'.
Proof.
  intros H. unfold update_many. cbv zeta.
  destruct (H FTotal I) as (l0 & Hl0 & Hlt0). cbn [flen get] in Hl0, Hlt0. inversion Hl0; subst l0.
  assert (E0 : add64 (st_total s) c = Some (st_total s + c)) by (apply add64_Some; split; auto; lia).
  rewrite E0.
  destruct (H FUnary I) as (l1 & Hl1 & Hlt1). cbn [flen get] in Hl1, Hlt1.
  assert (E1 : upd1 (add64 n 1) c (st_unary s) = Some (st_unary s + l1 * c))
    by (apply upd1_Some; exists l1; auto).
  rewrite E1.
  destruct (H FGamma I) as (l2 & Hl2 & Hlt2). cbn [flen get] in Hl2, Hlt2.
  assert (E2 : upd1 (len_gamma the_tables buf_params n) c (st_gamma s) = Some (st_gamma s + l2 * c))
    by (apply upd1_Some; exists l2; auto).
  rewrite E2.
  destruct (H FDelta I) as (l3 & Hl3 & Hlt3). cbn [flen get] in Hl3, Hlt3.
  assert (E3 : upd1 (len_delta the_tables buf_params n) c (st_delta s) = Some (st_delta s + l3 * c))
    by (apply upd1_Some; exists l3; auto).
  rewrite E3.
  destruct (H FOmega I) as (l4 & Hl4 & Hlt4). cbn [flen get] in Hl4, Hlt4.
  assert (E4 : upd1 (len_omega n) c (st_omega s) = Some (st_omega s + l4 * c))
    by (apply upd1_Some; exists l4; auto).
  rewrite E4.
  destruct (H FVByte I) as (l5 & Hl5 & Hlt5). cbn [flen get] in Hl5, Hlt5.
  assert (E5 : upd1 (bit_len_vbyte n) c (st_vbyte s) = Some (st_vbyte s + l5 * c))
    by (apply upd1_Some; exists l5; auto).
  rewrite E5.
  destruct (upd_vec_def (fun k => len_zeta the_tables buf_params n k) c (st_zeta s) (off 0))
    as [z Ez]; [intros i Hi; exact (H (FZeta i) Hi)|]. rewrite Ez.
  destruct (upd_vec_def (fun b => len_golomb n b) c (st_golomb s) (off 1))
    as [go Ego]; [intros i Hi; exact (H (FGolomb i) Hi)|]. rewrite Ego.
  destruct (upd_vec_def (fun k => len_exp_golomb the_tables buf_params n k) c (st_exp_golomb s) (off 2))
    as [eg Eeg]; [intros i Hi; exact (H (FExpGolomb i) Hi)|]. rewrite Eeg.
  destruct (upd_vec_def (fun k => len_rice n k) c (st_rice s) (off 3))
    as [ri Eri]; [intros i Hi; exact (H (FRice i) Hi)|]. rewrite Eri.
  destruct (upd_vec_def (fun k => len_pi n k) c (st_pi s) (off 4))
    as [pi Epi]; [intros i Hi; exact (H (FPi i) Hi)|]. rewrite Epi.
  eexists; reflexivity.
Qed.

Lemma upd_rel_unique s n c s1 s2 : upd_rel s n c s1 -> upd_rel s n c s2 -> s1 = s2.
Proof.
  intros [S1 H1] [S2 H2]. apply stats_ext; [congruence|].
  intros f Hv. rewrite S1 in Hv.
  destruct (H1 f Hv) as (l1 & Hl1 & Hg1 & _). destruct (H2 f Hv) as (l2 & Hl2 & Hg2 & _).
  rewrite Hl1 in Hl2. inversion Hl2. subst. lia.
Qed.

Lemma update_many_iff s n c s' : update_many s n c = Some s' <-> upd_rel s n c s'.
Proof.
  split; [apply update_many_spec|].
  intros R. destruct (update_many_def s n c) as [s'' E].
  - intros f Hv. destruct R as [_ R]. destruct (R f Hv) as (ln & Hl & _ & Hlt). exists ln; auto.
  - rewrite E. f_equal. apply update_many_spec in E. eapply upd_rel_unique; eauto.
Qed.

(* ------------------------------------------------------------------ *)
(* observations *)

Definition obs_step (acc : option stats) (p : N * N) : option stats :=
  let '(n, c) := p in match acc with Some s => update_many s n c | None => None end.

(* the statistics after observing value n with multiplicity c, for each (n, c) of the list in
   turn (None = some checked u64 operation overflowed, or a length was undefined) *)
Definition observe_from (s : stats) (obs : list (N * N)) : option stats :=
  fold_left obs_step obs (Some s).
Definition observe (obs : list (N * N)) : option stats := observe_from stats_default obs.

(* the mathematical totals, in unbounded N *)
Fixpoint total_count (obs : list (N * N)) : N :=
  match obs with [] => 0 | (_, c) :: r => c + total_count r end.
Fixpoint total_unary (obs : list (N * N)) : N :=
  match obs with [] => 0 | (n, c) :: r => (n + 1) * c + total_unary r end.
(* sum of len n * c; undefined as soon as one needed length is *)
Fixpoint total_len (len : N -> option N) (obs : list (N * N)) : option N :=
  match obs with
  | [] => Some 0
  | (n, c) :: r => match len n, total_len len r with
                   | Some l, Some t => Some (l * c + t)
                   | _, _ => None
                   end
  end.
Definition oadd (a b : option N) : option N :=
  match a, b with Some x, Some y => Some (x + y) | _, _ => None end.
(* a defined total that fits in a u64 *)
Definition fits64 (o : option N) : Prop := exists t, o = Some t /\ t < W64.

Lemma fold_obs_none obs : fold_left obs_step obs None = None.
Proof. induction obs as [|[n c] r IH]; cbn [fold_left obs_step]; auto. Qed.

Lemma observe_from_cons s n c r :
  observe_from s ((n, c) :: r) =
  match update_many s n c with Some s1 => observe_from s1 r | None => None end.
Proof.
  unfold observe_from. cbn [fold_left obs_step].
  destruct (update_many s n c); auto. apply fold_obs_none.
Qed.

Lemma total_len_cons_Some len n c r t :
  total_len len ((n, c) :: r) = Some t <->
  exists ln t', len n = Some ln /\ total_len len r = Some t' /\ t = ln * c + t'.
Proof.
  cbn [total_len]. split.
  - destruct (len n) as [ln|]; [|discriminate]. destruct (total_len len r) as [t'|]; [|discriminate].
    intros H; inversion H. exists ln, t'. auto.
  - intros (ln & t' & -> & -> & ->). reflexivity.
Qed.

Lemma total_len_ext len1 len2 obs :
  (forall n, len1 n = len2 n) -> total_len len1 obs = total_len len2 obs.
Proof.
  intros H. induction obs as [|[n c] r IH]; cbn [total_len]; auto. rewrite H, IH. reflexivity.
Qed.

Lemma total_len_app len a b :
  total_len len (a ++ b) = oadd (total_len len a) (total_len len b).
Proof.
  induction a as [|[n c] r IH]; cbn [app total_len].
  - destruct (total_len len b); reflexivity.
  - rewrite IH. destruct (len n); auto.
    destruct (total_len len r), (total_len len b); cbn [oadd]; auto. f_equal. lia.
Qed.

Lemma total_len_perm len a b : Permutation a b -> total_len len a = total_len len b.
Proof.
  induction 1 as [|[n c] a b _ IH|[n1 c1] [n2 c2] a|a b c _ IH1 _ IH2].
  - reflexivity.
  - cbn [total_len]. rewrite IH. reflexivity.
  - cbn [total_len]. destruct (len n1), (len n2), (total_len len a); auto. f_equal. lia.
  - congruence.
Qed.

Lemma total_len_count obs : total_len (flen FTotal) obs = Some (total_count obs).
Proof.
  induction obs as [|[n c] r IH]; cbn [total_len total_count flen]; auto.
  cbn [flen] in IH. rewrite IH. f_equal. lia.
Qed.

Lemma total_len_unary obs t :
  total_len (fun n => add64 n 1) obs = Some t <->
  (forall n c, In (n, c) obs -> n + 1 < W64) /\ t = total_unary obs.
Proof.
  revert t. induction obs as [|[n c] r IH]; intros t.
  - cbn [total_len total_unary In]. split.
    + intros H; inversion H. split; auto. intros ? ? [].
    + intros [_ ->]. reflexivity.
  - rewrite total_len_cons_Some. cbn [total_unary In]. split.
    + intros (ln & t' & Hl & Ht' & ->). apply add64_Some in Hl. destruct Hl as [-> Hlt].
      apply IH in Ht'. destruct Ht' as [Hall ->]. split; auto.
      intros n0 c0 [E|Hin]; [inversion E; subst; auto|eauto].
    + intros [Hall ->]. exists (n + 1), (total_unary r). repeat split.
      * apply add64_Some. split; auto. apply (Hall n c). left; reflexivity.
      * apply IH. split; auto. intros n0 c0 Hin. apply (Hall n0 c0). right; exact Hin.
Qed.

Lemma total_len_repeat len n ln k :
  len n = Some ln -> total_len len (repeat (n, 1) k) = Some (ln * N.of_nat k).
Proof.
  intros H. induction k as [|k IH]; cbn [repeat total_len].
  - f_equal. lia.
  - rewrite H, IH. f_equal. lia.
Qed.

Definition obs_rel (s : stats) (obs : list (N * N)) (s' : stats) : Prop :=
  shape s' = shape s /\
  forall f, valid (shape s) f ->
    exists t, total_len (flen f) obs = Some t /\ get f s' = get f s + t /\ get f s + t < W64.

Lemma observe_from_spec : forall obs s s',
  fits s -> observe_from s obs = Some s' -> obs_rel s obs s'.
Proof.
  induction obs as [|[n c] r IH]; intros s s' Hf H.
  - cbn in H. inversion H; subst s'. split; auto. intros f Hv. exists 0.
    cbn [total_len]. specialize (Hf f Hv). repeat split; lia.
  - rewrite observe_from_cons in H. destruct (update_many s n c) as [s1|] eqn:E; [|discriminate].
    apply update_many_spec in E. destruct E as [S1 E].
    assert (Hf1 : fits s1).
    { intros f Hv. rewrite S1 in Hv. destruct (E f Hv) as (ln & _ & -> & Hlt). exact Hlt. }
    destruct (IH s1 s' Hf1 H) as [S2 R]. split; [congruence|].
    intros f Hv. destruct (E f Hv) as (ln & Hl & Hg & Hlt).
    rewrite <- S1 in Hv. destruct (R f Hv) as (t & Ht & Hg' & Hlt').
    exists (ln * c + t). cbn [total_len]. rewrite Hl, Ht. repeat split; lia.
Qed.

Lemma observe_from_def : forall obs s,
  (forall f, valid (shape s) f ->
     exists t, total_len (flen f) obs = Some t /\ get f s + t < W64) ->
  exists s', observe_from s obs = Some s'.
Proof.
  induction obs as [|[n c] r IH]; intros s H.
  - exists s. reflexivity.
  - rewrite observe_from_cons.
    destruct (update_many_def s n c) as [s1 E].
    + intros f Hv. destruct (H f Hv) as (t & Ht & Hlt).
      apply total_len_cons_Some in Ht. destruct Ht as (ln & t' & Hl & _ & ->).
      exists ln. split; auto. lia.
    + rewrite E. apply update_many_spec in E. destruct E as [S1 E].
      apply IH. intros f Hv. rewrite S1 in Hv.
      destruct (H f Hv) as (t & Ht & Hlt). destruct (E f Hv) as (ln & Hl & Hg & _).
      apply total_len_cons_Some in Ht. destruct Ht as (ln' & t' & Hl' & Ht' & ->).
      rewrite Hl in Hl'. inversion Hl'; subst ln'.
      exists t'. split; auto. lia.
Qed.

Lemma obs_rel_unique s obs s1 s2 : obs_rel s obs s1 -> obs_rel s obs s2 -> s1 = s2.
Proof.
  intros [S1 H1] [S2 H2]. apply stats_ext; [congruence|].
  intros f Hv. rewrite S1 in Hv.
  destruct (H1 f Hv) as (t1 & Ht1 & Hg1 & _). destruct (H2 f Hv) as (t2 & Ht2 & Hg2 & _).
  rewrite Ht1 in Ht2. inversion Ht2. subst. lia.
Qed.

Lemma observe_from_iff s obs s' :
  fits s -> (observe_from s obs = Some s' <-> obs_rel s obs s').
Proof.
  intros Hf. split; [apply observe_from_spec; auto|].
  intros R. destruct (observe_from_def obs s) as [s'' E].
  - intros f Hv. destruct R as [_ R]. destruct (R f Hv) as (t & Ht & _ & Hlt). exists t; auto.
  - rewrite E. f_equal. apply observe_from_spec in E; auto. eapply obs_rel_unique; eauto.
Qed.

Lemma observe_iff obs s : observe obs = Some s <-> obs_rel stats_default obs s.
Proof. apply observe_from_iff, fits_default. Qed.

(* what observe_iff says, without the zero initial values *)
Lemma observe_fields obs s :
  observe obs = Some s ->
  shape s = sizes /\ fits s /\
  forall f, valid sizes f -> total_len (flen f) obs = Some (get f s).
Proof.
  intros H. apply observe_iff in H. destruct H as [S R]. rewrite shape_default in *.
  split; auto. split.
  - intros f Hv. rewrite S in Hv. destruct (R f Hv) as (t & _ & -> & Hlt). exact Hlt.
  - intros f Hv. destruct (R f Hv) as (t & Ht & Hg & _). rewrite get_default in Hg.
    rewrite Ht. f_equal. lia.
Qed.

(* ------------------------------------------------------------------ *)
(* 1. exactness *)

Theorem exact : forall obs s, observe obs = Some s ->
  st_total s = total_count obs /\
  st_unary s = total_unary obs /\
  Some (st_gamma s) = total_len (len_gamma the_tables buf_params) obs /\
  Some (st_delta s) = total_len (len_delta the_tables buf_params) obs /\
  Some (st_omega s) = total_len len_omega obs /\
  Some (st_vbyte s) = total_len bit_len_vbyte obs /\
  (length (st_zeta s) = sz 0 /\ forall i, (i < sz 0)%nat ->
     Some (nth i (st_zeta s) 0) =
     total_len (fun n => len_zeta the_tables buf_params n (off 0 + N.of_nat i)) obs) /\
  (length (st_golomb s) = sz 1 /\ forall i, (i < sz 1)%nat ->
     Some (nth i (st_golomb s) 0) = total_len (fun n => len_golomb n (off 1 + N.of_nat i)) obs) /\
  (length (st_exp_golomb s) = sz 2 /\ forall i, (i < sz 2)%nat ->
     Some (nth i (st_exp_golomb s) 0) =
     total_len (fun n => len_exp_golomb the_tables buf_params n (off 2 + N.of_nat i)) obs) /\
  (length (st_rice s) = sz 3 /\ forall i, (i < sz 3)%nat ->
     Some (nth i (st_rice s) 0) = total_len (fun n => len_rice n (off 3 + N.of_nat i)) obs) /\
  (length (st_pi s) = sz 4 /\ forall i, (i < sz 4)%nat ->
     Some (nth i (st_pi s) 0) = total_len (fun n => len_pi n (off 4 + N.of_nat i)) obs) /\
  Forall (fun x => x < W64) (stats_flat s).
Proof.
  intros obs s H. destruct (observe_fields obs s H) as (S & Hf & R).
  unfold shape, sizes in S. injection S as S0 S1 S2 S3 S4.
  split. { pose proof (R FTotal I) as E. rewrite total_len_count in E. inversion E; auto. }
  split. { pose proof (R FUnary I) as E. cbn [flen get] in E. apply total_len_unary in E. tauto. }
  split. { symmetry. apply (R FGamma I). }
  split. { symmetry. apply (R FDelta I). }
  split. { symmetry. apply (R FOmega I). }
  split. { symmetry. apply (R FVByte I). }
  split. { split; auto. intros i Hi. symmetry. apply (R (FZeta i)). exact Hi. }
  split. { split; auto. intros i Hi. symmetry. apply (R (FGolomb i)). exact Hi. }
  split. { split; auto. intros i Hi. symmetry. apply (R (FExpGolomb i)). exact Hi. }
  split. { split; auto. intros i Hi. symmetry. apply (R (FRice i)). exact Hi. }
  split. { split; auto. intros i Hi. symmetry. apply (R (FPi i)). exact Hi. }
  apply fits_flat; auto.
Qed.

Theorem exact_defined : forall obs,
  total_count obs < W64 ->
  (forall n c, In (n, c) obs -> n + 1 < W64) -> total_unary obs < W64 ->
  fits64 (total_len (len_gamma the_tables buf_params) obs) ->
  fits64 (total_len (len_delta the_tables buf_params) obs) ->
  fits64 (total_len len_omega obs) ->
  fits64 (total_len bit_len_vbyte obs) ->
  (forall i, (i < sz 0)%nat ->
     fits64 (total_len (fun n => len_zeta the_tables buf_params n (off 0 + N.of_nat i)) obs)) ->
  (forall i, (i < sz 1)%nat ->
     fits64 (total_len (fun n => len_golomb n (off 1 + N.of_nat i)) obs)) ->
  (forall i, (i < sz 2)%nat ->
     fits64 (total_len (fun n => len_exp_golomb the_tables buf_params n (off 2 + N.of_nat i)) obs)) ->
  (forall i, (i < sz 3)%nat ->
     fits64 (total_len (fun n => len_rice n (off 3 + N.of_nat i)) obs)) ->
  (forall i, (i < sz 4)%nat ->
     fits64 (total_len (fun n => len_pi n (off 4 + N.of_nat i)) obs)) ->
  exists s, observe obs = Some s.
Proof.
  intros obs Ht Hu1 Hu2 Hg Hd Ho Hv Hz Hgo Heg Hr Hp.
  apply observe_from_def. intros f Hval. rewrite shape_default in Hval. rewrite get_default.
  assert (G : forall o, fits64 o -> exists t, o = Some t /\ 0 + t < W64).
  { intros o (t & -> & Hlt). exists t. split; auto. }
  destruct f; cbn [valid sizes nth] in Hval.
  - exists (total_count obs). split; [apply total_len_count|lia].
  - exists (total_unary obs). split; [|lia]. apply total_len_unary. auto.
  - apply G, Hg.
  - apply G, Hd.
  - apply G, Ho.
  - apply G, Hv.
  - apply G, (Hz i Hval).
  - apply G, (Hgo i Hval).
  - apply G, (Heg i Hval).
  - apply G, (Hr i Hval).
  - apply G, (Hp i Hval).
Qed.

(* the hypotheses of exact_defined, as one predicate; they are also necessary *)
Definition totals_fit (obs : list (N * N)) : Prop :=
  total_count obs < W64 /\
  (forall n c, In (n, c) obs -> n + 1 < W64) /\ total_unary obs < W64 /\
  fits64 (total_len (len_gamma the_tables buf_params) obs) /\
  fits64 (total_len (len_delta the_tables buf_params) obs) /\
  fits64 (total_len len_omega obs) /\
  fits64 (total_len bit_len_vbyte obs) /\
  (forall i, (i < sz 0)%nat ->
     fits64 (total_len (fun n => len_zeta the_tables buf_params n (off 0 + N.of_nat i)) obs)) /\
  (forall i, (i < sz 1)%nat ->
     fits64 (total_len (fun n => len_golomb n (off 1 + N.of_nat i)) obs)) /\
  (forall i, (i < sz 2)%nat ->
     fits64 (total_len (fun n => len_exp_golomb the_tables buf_params n (off 2 + N.of_nat i)) obs)) /\
  (forall i, (i < sz 3)%nat ->
     fits64 (total_len (fun n => len_rice n (off 3 + N.of_nat i)) obs)) /\
  (forall i, (i < sz 4)%nat ->
     fits64 (total_len (fun n => len_pi n (off 4 + N.of_nat i)) obs)).

Theorem exact_defined_iff : forall obs, totals_fit obs <-> exists s, observe obs = Some s.
Proof.
  intros obs. split.
  - intros (H0 & H1 & H2 & H3 & H4 & H5 & H6 & H7 & H8 & H9 & H10 & H11).
    apply exact_defined; auto.
  - intros [s H]. destruct (observe_fields obs s H) as (S & Hf & R).
    assert (G : forall f, valid sizes f -> fits64 (total_len (flen f) obs)).
    { intros f Hv. exists (get f s). split; auto. apply Hf. rewrite S. exact Hv. }
    pose proof (G FTotal I) as (t0 & E0 & L0). rewrite total_len_count in E0. inversion E0; subst t0.
    pose proof (G FUnary I) as (t1 & E1 & L1). cbn [flen] in E1. apply total_len_unary in E1.
    destruct E1 as [A1 ->].
    split; auto. split; auto. split; auto.
    split. { exact (G FGamma I). } split. { exact (G FDelta I). }
    split. { exact (G FOmega I). } split. { exact (G FVByte I). }
    split. { intros i Hi. exact (G (FZeta i) Hi). }
    split. { intros i Hi. exact (G (FGolomb i) Hi). }
    split. { intros i Hi. exact (G (FExpGolomb i) Hi). }
    split. { intros i Hi. exact (G (FRice i) Hi). }
    intros i Hi. exact (G (FPi i) Hi).
Qed.

(* ------------------------------------------------------------------ *)
(* 2. update_many n c = c times update n *)

Definition iter_update (s : stats) (n c : N) : option stats :=
  N.iter c (fun o => match o with Some s => update s n | None => None end) (Some s).

Lemma nat_iter_fold (n : N) : forall k o,
  Nat.iter k (fun o => match o with Some s => update s n | None => None end) o =
  fold_left obs_step (repeat (n, 1) k) o.
Proof.
  induction k as [|k IH]; intros o; [reflexivity|].
  cbn [repeat fold_left]. rewrite <- IH. clear IH.
  induction k as [|k IH2]; [destruct o; reflexivity|].
  change (Nat.iter (S (S k)) ?f o) with (f (Nat.iter (S k) f o)).
  rewrite IH2. reflexivity.
Qed.

Lemma iter_update_observe s n c :
  iter_update s n c = observe_from s (repeat (n, 1) (N.to_nat c)).
Proof. unfold iter_update, observe_from. rewrite N2Nat.inj_iter. apply nat_iter_fold. Qed.

Theorem update_many_iter : forall s n c s',
  update_many s n c = Some s' -> iter_update s n c = Some s'.
Proof.
  intros s n c s' H. apply update_many_spec in H. destruct H as [S R].
  rewrite iter_update_observe. apply observe_from_iff.
  - intros f Hv. destruct (R f Hv) as (ln & _ & _ & Hlt). lia.
  - split; auto. intros f Hv. destruct (R f Hv) as (ln & Hl & Hg & Hlt).
    exists (ln * c). rewrite (total_len_repeat _ _ _ _ Hl). repeat split; auto. f_equal. lia.
Qed.

(* ------------------------------------------------------------------ *)
(* 3. merge *)

Definition add_rel (a b s : stats) : Prop :=
  shape s = shape a /\
  forall f, valid (shape a) f -> get f s = get f a + get f b /\ get f a + get f b < W64.

Lemma stats_add_spec a b s : shape a = shape b -> stats_add a b = Some s -> add_rel a b s.
Proof.
  intros Hs. unfold shape in Hs. injection Hs as S0 S1 S2 S3 S4.
  unfold stats_add. do 11 dmatch. intros H; inversion H; subst s; clear H.
  apply add64_Some in E, E0, E1, E2, E3, E4.
  apply add_vec_spec in E5, E6, E7, E8, E9; auto.
  destruct E5 as [L5 E5], E6 as [L6 E6], E7 as [L7 E7], E8 as [L8 E8], E9 as [L9 E9].
  split.
  - unfold shape. cbn [st_zeta st_golomb st_exp_golomb st_rice st_pi]. congruence.
  - intros f Hv.
    destruct f;
      cbn [get valid shape nth st_total st_unary st_gamma st_delta st_omega st_vbyte
               st_zeta st_golomb st_exp_golomb st_rice st_pi] in *; auto.
Qed.

Lemma stats_add_def a b : shape a = shape b ->
  (forall f, valid (shape a) f -> get f a + get f b < W64) ->
  exists s, stats_add a b = Some s.
Proof.
  intros Hs H. unfold shape in Hs. injection Hs as S0 S1 S2 S3 S4.
  unfold stats_add.
  rewrite (proj2 (add64_Some (st_total a) (st_total b) _) (conj eq_refl (H FTotal I))).
  rewrite (proj2 (add64_Some (st_unary a) (st_unary b) _) (conj eq_refl (H FUnary I))).
  rewrite (proj2 (add64_Some (st_gamma a) (st_gamma b) _) (conj eq_refl (H FGamma I))).
  rewrite (proj2 (add64_Some (st_delta a) (st_delta b) _) (conj eq_refl (H FDelta I))).
  rewrite (proj2 (add64_Some (st_omega a) (st_omega b) _) (conj eq_refl (H FOmega I))).
  rewrite (proj2 (add64_Some (st_vbyte a) (st_vbyte b) _) (conj eq_refl (H FVByte I))).
  destruct (add_vec_def (st_zeta a) (st_zeta b) S0) as [z Ez];
    [intros i Hi; exact (H (FZeta i) Hi)|]. rewrite Ez.
  destruct (add_vec_def (st_golomb a) (st_golomb b) S1) as [go Ego];
    [intros i Hi; exact (H (FGolomb i) Hi)|]. rewrite Ego.
  destruct (add_vec_def (st_exp_golomb a) (st_exp_golomb b) S2) as [eg Eeg];
    [intros i Hi; exact (H (FExpGolomb i) Hi)|]. rewrite Eeg.
  destruct (add_vec_def (st_rice a) (st_rice b) S3) as [ri Eri];
    [intros i Hi; exact (H (FRice i) Hi)|]. rewrite Eri.
  destruct (add_vec_def (st_pi a) (st_pi b) S4) as [pi Epi];
    [intros i Hi; exact (H (FPi i) Hi)|]. rewrite Epi.
  eexists; reflexivity.
Qed.

Lemma add_rel_unique a b s1 s2 : add_rel a b s1 -> add_rel a b s2 -> s1 = s2.
Proof.
  intros [S1 H1] [S2 H2]. apply stats_ext; [congruence|].
  intros f Hv. rewrite S1 in Hv. destruct (H1 f Hv) as [-> _]. destruct (H2 f Hv) as [-> _]. auto.
Qed.

Lemma stats_add_iff a b s : shape a = shape b -> (stats_add a b = Some s <-> add_rel a b s).
Proof.
  intros Hs. split; [apply stats_add_spec; auto|].
  intros R. destruct (stats_add_def a b Hs) as [s' E].
  - intros f Hv. destruct R as [_ R]. apply (R f Hv).
  - rewrite E. f_equal. apply stats_add_spec in E; auto. eapply add_rel_unique; eauto.
Qed.

Theorem merge_union : forall a b sa sb,
  observe a = Some sa -> observe b = Some sb ->
  forall s, stats_add sa sb = Some s <-> observe (a ++ b) = Some s.
Proof.
  intros a b sa sb Ha Hb s.
  apply observe_iff in Ha, Hb. destruct Ha as [Sa Ra], Hb as [Sb Rb].
  rewrite observe_iff, stats_add_iff by congruence.
  split; intros [S R]; (split; [congruence|]); intros f Hv.
  - rewrite <- Sa in Hv. destruct (R f Hv) as [Hg Hlt]. rewrite Sa in Hv.
    destruct (Ra f Hv) as (ta & Hta & Hga & _). destruct (Rb f Hv) as (tb & Htb & Hgb & _).
    exists (ta + tb). rewrite total_len_app, Hta, Htb. cbn [oadd].
    rewrite get_default in *. repeat split; lia.
  - rewrite Sa in Hv. destruct (R f Hv) as (t & Ht & Hg & Hlt).
    destruct (Ra f Hv) as (ta & Hta & Hga & _). destruct (Rb f Hv) as (tb & Htb & Hgb & _).
    rewrite total_len_app, Hta, Htb in Ht. cbn [oadd] in Ht. inversion Ht; subst t.
    rewrite get_default in *. split; lia.
Qed.

Theorem stats_add_comm : forall a b, shape a = shape b -> stats_add a b = stats_add b a.
Proof.
  intros a b Hs. apply option_ext. intros s.
  rewrite !stats_add_iff by congruence.
  split; intros [S R]; (split; [congruence|]); intros f Hv.
  - rewrite <- Hs in Hv. destruct (R f Hv). split; lia.
  - rewrite Hs in Hv. destruct (R f Hv). split; lia.
Qed.

Theorem stats_add_assoc : forall a b c ab bc,
  shape a = shape b -> shape b = shape c ->
  stats_add a b = Some ab -> stats_add b c = Some bc ->
  stats_add ab c = stats_add a bc.
Proof.
  intros a b c ab bc Hab Hbc E1 E2.
  apply stats_add_iff in E1, E2; auto. destruct E1 as [S1 R1], E2 as [S2 R2].
  apply option_ext. intros s. rewrite !stats_add_iff by congruence.
  split; intros [S R]; (split; [congruence|]); intros f Hv.
  - destruct (R1 f Hv). rewrite Hab in Hv. destruct (R2 f Hv).
    rewrite <- Hab, <- S1 in Hv. destruct (R f Hv). split; lia.
  - rewrite S1 in Hv. destruct (R f Hv). destruct (R1 f Hv). rewrite Hab in Hv.
    destruct (R2 f Hv). split; lia.
Qed.

Theorem stats_add_unit : forall s, shaped s -> fits s ->
  stats_add stats_default s = Some s /\ stats_add s stats_default = Some s.
Proof.
  intros s Hs Hf. unfold shaped in Hs. rewrite <- shape_default in Hs.
  assert (E : stats_add s stats_default = Some s).
  { apply stats_add_iff; auto. split; auto. intros f Hv. rewrite get_default.
    specialize (Hf f Hv). split; lia. }
  split; auto. rewrite stats_add_comm; auto.
Qed.

Lemma observe_shaped_fits obs s : observe obs = Some s -> shaped s /\ fits s.
Proof. intros H. destruct (observe_fields obs s H) as (S & Hf & _). split; auto. Qed.

Theorem observe_permutation : forall a b, Permutation a b -> observe a = observe b.
Proof.
  intros a b P. apply option_ext. intros s. rewrite !observe_iff.
  split; intros [S R]; (split; auto); intros f Hv.
  - rewrite <- (total_len_perm _ _ _ P). auto.
  - rewrite (total_len_perm _ _ _ P). auto.
Qed.

(* interleavings of k threads: at each step one thread performs its next whole update *)
Inductive interleaving {A : Type} : list (list A) -> list A -> Prop :=
| il_done : forall ts, Forall (fun t => t = []) ts -> interleaving ts []
| il_step : forall ts1 x t ts2 l,
    interleaving (ts1 ++ t :: ts2) l -> interleaving (ts1 ++ (x :: t) :: ts2) (x :: l).

Lemma interleaving_perm {A} (ts : list (list A)) l :
  interleaving ts l -> Permutation l (concat ts).
Proof.
  induction 1 as [ts H|ts1 x t ts2 l _ IH].
  - induction H as [|t ts Ht _ IH]; cbn [concat]; [constructor|]. subst t. exact IH.
  - rewrite concat_app in *. cbn [concat] in *. cbn [app].
    apply Permutation_cons_app. exact IH.
Qed.

(* PARTIAL with respect to the Rust: the model applies whole updates one at a time, i.e. it
   ASSUMES each update is atomic.  The Mutex that guarantees this atomicity in the Rust source
   is outside the model.  Within that assumption the statement is at full strength: every
   schedule of any number of threads gives the statistics of the sequential observation. *)
Theorem interleavings_partial : forall (ts : list (list (N * N))) l,
  interleaving ts l -> observe l = observe (concat ts).
Proof. intros ts l H. apply observe_permutation, interleaving_perm, H. Qed.

(* every thread keeps its own statistics and the results are merged: same thing *)
Fixpoint merge_all (l : list stats) : option stats :=
  match l with
  | [] => Some stats_default
  | s :: r => match merge_all r with Some m => stats_add s m | None => None end
  end.

Theorem merge_all_threads : forall (ts : list (list (N * N))) ss,
  Forall2 (fun t s => observe t = Some s) ts ss ->
  merge_all ss = observe (concat ts).
Proof.
  induction 1 as [|t s ts ss Ht _ IH]; cbn [merge_all concat]; [reflexivity|].
  rewrite IH. destruct (observe (concat ts)) as [m|] eqn:E.
  - apply option_ext. intros r. apply merge_union; auto.
  - destruct (observe (t ++ concat ts)) as [r|] eqn:E2; auto. exfalso.
    (* a defined observation has defined suffixes *)
    apply observe_iff in E2. destruct E2 as [S R].
    destruct (observe_from_def (concat ts) stats_default) as [m Hm]; [|unfold observe in E; congruence].
    intros f Hv. destruct (R f Hv) as (tt & Htt & _ & Hlt).
    rewrite total_len_app in Htt.
    destruct (total_len (flen f) t) as [x|]; [|discriminate].
    destruct (total_len (flen f) (concat ts)) as [y|]; [|discriminate].
    cbn [oadd] in Htt. inversion Htt; subst tt. exists y. split; auto. lia.
Qed.

(* ------------------------------------------------------------------ *)
(* 4. best code *)

Definition scalar_total (c : code) (v : N) : option N :=
  if cparam c =? 0 then Some v else None.
Definition vec_total (c : code) (o : N) (l : list N) : option N :=
  if o <=? cparam c then nth_error l (N.to_nat (cparam c - o)) else None.
(* the tracked counter a code names (as best_code names them); None = not tracked *)
Definition tracked_total (s : stats) (c : code) : option N :=
  match cvar c with
  | VUnary => scalar_total c (st_unary s)
  | VGamma => scalar_total c (st_gamma s)
  | VDelta => scalar_total c (st_delta s)
  | VOmega => scalar_total c (st_omega s)
  | VVByteBe => scalar_total c (st_vbyte s)
  | VVByteLe => None
  | VZeta => vec_total c (boff 0) (st_zeta s)
  | VGolomb => vec_total c (boff 1) (st_golomb s)
  | VExpGolomb => vec_total c (boff 2) (st_exp_golomb s)
  | VRice => vec_total c (boff 3) (st_rice s)
  | VPi => vec_total c (boff 4) (st_pi s)
  end.

Lemma chk_spec c len best :
  snd (chk c len best) <= snd best /\ snd (chk c len best) <= len /\
  (chk c len best = best \/ chk c len best = (c, len)).
Proof.
  unfold chk. destruct (len <? snd best) eqn:E; cbn [snd].
  - apply N.ltb_lt in E. repeat split; auto; lia.
  - apply N.ltb_ge in E. repeat split; auto; lia.
Qed.

Lemma best_vec_spec v l : forall idx best,
  snd (best_vec v idx l best) <= snd best /\
  (forall x, In x l -> snd (best_vec v idx l best) <= x) /\
  (best_vec v idx l best = best \/
   exists i, nth_error l i = Some (snd (best_vec v idx l best)) /\
             fst (best_vec v idx l best) = {| cvar := v; cparam := idx + N.of_nat i |}).
Proof.
  induction l as [|x r IH]; intros idx best; cbn [best_vec].
  - repeat split; auto; try lia. intros ? [].
  - set (b' := if x <? snd best then ({| cvar := v; cparam := idx |}, x) else best).
    destruct (IH (idx + 1) b') as (H1 & H2 & H3).
    assert (Hb : snd b' <= snd best /\ snd b' <= x /\
                 (b' = best \/ b' = ({| cvar := v; cparam := idx |}, x))).
    { unfold b'. destruct (x <? snd best) eqn:E; cbn [snd].
      - apply N.ltb_lt in E. repeat split; auto; lia.
      - apply N.ltb_ge in E. repeat split; auto; lia. }
    destruct Hb as (Hb1 & Hb2 & Hb3).
    split; [lia|]. split.
    + intros y [<-|Hy]; [lia|auto].
    + destruct H3 as [E|(i & Hi & Hc)].
      * rewrite E. destruct Hb3 as [E'|E']; [left; auto|right].
        exists 0%nat. rewrite E'. cbn [nth_error fst snd]. split; auto. f_equal. lia.
      * right. exists (S i). cbn [nth_error]. split; auto. rewrite Hc. f_equal. lia.
Qed.

Lemma vec_total_at v o i l :
  vec_total {| cvar := v; cparam := o + N.of_nat i |} o l = nth_error l i.
Proof.
  unfold vec_total. cbn [cparam]. destruct (o <=? o + N.of_nat i) eqn:E; [|lia].
  f_equal. lia.
Qed.

Section Best.
  Variable s : stats.
  Definition good (r : code * N) : Prop := tracked_total s (fst r) = Some (snd r).

  Lemma good_chk c len best :
    tracked_total s c = Some len -> good best -> good (chk c len best).
  Proof.
    intros Hc Hb. destruct (chk_spec c len best) as (_ & _ & [E|E]); rewrite E; auto.
  Qed.

  Lemma good_vec v idx l best :
    (forall i x, nth_error l i = Some x ->
       tracked_total s {| cvar := v; cparam := idx + N.of_nat i |} = Some x) ->
    good best -> good (best_vec v idx l best).
  Proof.
    intros H Hb. destruct (best_vec_spec v l idx best) as (_ & _ & [E|(i & Hi & Hc)]).
    - rewrite E; auto.
    - unfold good. rewrite Hc. apply H. exact Hi.
  Qed.
End Best.

Theorem best_code_min : forall s c cost, best_code s = (c, cost) ->
  tracked_total s c = Some cost /\
  forall c' x, tracked_total s c' = Some x -> cost <= x.
Proof.
  intros s c cost H. unfold best_code in H. cbv zeta in H.
  set (b0 := ({| cvar := VUnary; cparam := 0 |}, st_unary s)) in H.
  set (b1 := chk {| cvar := VGamma; cparam := 0 |} (st_gamma s) b0) in H.
  set (b2 := chk {| cvar := VDelta; cparam := 0 |} (st_delta s) b1) in H.
  set (b3 := chk {| cvar := VOmega; cparam := 0 |} (st_omega s) b2) in H.
  set (b4 := chk {| cvar := VVByteBe; cparam := 0 |} (st_vbyte s) b3) in H.
  set (b5 := best_vec VZeta (boff 0) (st_zeta s) b4) in H.
  set (b6 := best_vec VGolomb (boff 1) (st_golomb s) b5) in H.
  set (b7 := best_vec VExpGolomb (boff 2) (st_exp_golomb s) b6) in H.
  set (b8 := best_vec VRice (boff 3) (st_rice s) b7) in H.
  set (b9 := best_vec VPi (boff 4) (st_pi s) b8) in H.
  split.
  - assert (G : good s b9).
    { unfold b9. apply good_vec.
      { intros i x Hx. unfold tracked_total. cbn [cvar]. rewrite vec_total_at. exact Hx. }
      unfold b8. apply good_vec.
      { intros i x Hx. unfold tracked_total. cbn [cvar]. rewrite vec_total_at. exact Hx. }
      unfold b7. apply good_vec.
      { intros i x Hx. unfold tracked_total. cbn [cvar]. rewrite vec_total_at. exact Hx. }
      unfold b6. apply good_vec.
      { intros i x Hx. unfold tracked_total. cbn [cvar]. rewrite vec_total_at. exact Hx. }
      unfold b5. apply good_vec.
      { intros i x Hx. unfold tracked_total. cbn [cvar]. rewrite vec_total_at. exact Hx. }
      unfold b4, b3, b2, b1, b0. repeat apply good_chk; reflexivity. }
    unfold good in G. rewrite H in G. exact G.
  - pose proof (chk_spec {| cvar := VGamma; cparam := 0 |} (st_gamma s) b0) as (P1 & Q1 & _).
    pose proof (chk_spec {| cvar := VDelta; cparam := 0 |} (st_delta s) b1) as (P2 & Q2 & _).
    pose proof (chk_spec {| cvar := VOmega; cparam := 0 |} (st_omega s) b2) as (P3 & Q3 & _).
    pose proof (chk_spec {| cvar := VVByteBe; cparam := 0 |} (st_vbyte s) b3) as (P4 & Q4 & _).
    pose proof (best_vec_spec VZeta (st_zeta s) (boff 0) b4) as (P5 & Q5 & _).
    pose proof (best_vec_spec VGolomb (st_golomb s) (boff 1) b5) as (P6 & Q6 & _).
    pose proof (best_vec_spec VExpGolomb (st_exp_golomb s) (boff 2) b6) as (P7 & Q7 & _).
    pose proof (best_vec_spec VRice (st_rice s) (boff 3) b7) as (P8 & Q8 & _).
    pose proof (best_vec_spec VPi (st_pi s) (boff 4) b8) as (P9 & Q9 & _).
    fold b1 in P1, Q1, P2. fold b2 in P2, Q2, P3. fold b3 in P3, Q3, P4. fold b4 in P4, Q4, P5.
    fold b5 in P5, Q5, P6. fold b6 in P6, Q6, P7. fold b7 in P7, Q7, P8. fold b8 in P8, Q8, P9.
    fold b9 in P9, Q9.
    assert (P0 : snd b0 = st_unary s) by reflexivity.
    assert (Hc : cost = snd b9) by (rewrite H; reflexivity).
    intros [v p] x. destruct v; unfold tracked_total; cbn [cvar];
      unfold scalar_total, vec_total; cbn [cparam]; try discriminate.
    all: match goal with
         | |- (if ?b then _ else _) = _ -> _ => destruct b; [|discriminate]
         end.
    all: intros Hx; try (inversion Hx; subst x; lia).
    all: apply nth_error_In in Hx.
    + specialize (Q5 x Hx). lia.
    + specialize (Q9 x Hx). lia.
    + specialize (Q6 x Hx). lia.
    + specialize (Q7 x Hx). lia.
    + specialize (Q8 x Hx). lia.
Qed.

(* the length function of the trait method a code names, as the dispatch layer defines it *)
Definition code_len (c : code) (n : N) : option N :=
  call_len the_tables buf_params (direct_call c) n.

(* the two generated offset tables agree (checked by computation on the generated data) *)
Lemma offsets_agree : stats_offsets = best_code_offsets.
Proof. reflexivity. Qed.
Lemma off_boff j : off j = boff j.
Proof. unfold off, boff. rewrite offsets_agree. reflexivity. Qed.

Lemma vec_total_fld c o l x :
  vec_total c o l = Some x ->
  exists i, (i < length l)%nat /\ nth i l 0 = x /\ cparam c = o + N.of_nat i.
Proof.
  unfold vec_total. destruct (o <=? cparam c) eqn:E; [|discriminate]. intros H.
  exists (N.to_nat (cparam c - o)). split; [|split].
  - apply nth_error_Some. congruence.
  - apply nth_error_nth. exact H.
  - lia.
Qed.

(* a tracked counter is exactly the cost of encoding the observed values with that code *)
Theorem tracked_total_exact : forall obs s c x,
  observe obs = Some s -> tracked_total s c = Some x -> total_len (code_len c) obs = Some x.
Proof.
  intros obs s [v p] x H Hx. destruct (observe_fields obs s H) as (S & _ & R).
  unfold shape, sizes in S. injection S as S0 S1 S2 S3 S4.
  unfold tracked_total in Hx. cbn [cvar] in Hx.
  destruct v; try discriminate.
  1-5: unfold scalar_total in Hx; cbn [cparam] in Hx;
       destruct (p =? 0); [|discriminate]; inversion Hx; subst x.
  - exact (R FUnary I).
  - exact (R FGamma I).
  - exact (R FDelta I).
  - exact (R FOmega I).
  - exact (R FVByte I).
  - apply vec_total_fld in Hx. destruct Hx as (i & Hi & <- & Hp). cbn [cparam] in Hp.
    rewrite <- off_boff in Hp. rewrite S0 in Hi.
    transitivity (total_len (flen (FZeta i)) obs); [|exact (R (FZeta i) Hi)]. apply total_len_ext. intros n.
    unfold code_len, call_len, direct_call. cbn [ckind carg cvar cparam kind_eqb flen]. congruence.
  - apply vec_total_fld in Hx. destruct Hx as (i & Hi & <- & Hp). cbn [cparam] in Hp.
    rewrite <- off_boff in Hp. rewrite S4 in Hi.
    transitivity (total_len (flen (FPi i)) obs); [|exact (R (FPi i) Hi)]. apply total_len_ext. intros n.
    unfold code_len, call_len, direct_call. cbn [ckind carg cvar cparam kind_eqb flen]. congruence.
  - apply vec_total_fld in Hx. destruct Hx as (i & Hi & <- & Hp). cbn [cparam] in Hp.
    rewrite <- off_boff in Hp. rewrite S1 in Hi.
    transitivity (total_len (flen (FGolomb i)) obs); [|exact (R (FGolomb i) Hi)]. apply total_len_ext. intros n.
    unfold code_len, call_len, direct_call. cbn [ckind carg cvar cparam kind_eqb flen]. congruence.
  - apply vec_total_fld in Hx. destruct Hx as (i & Hi & <- & Hp). cbn [cparam] in Hp.
    rewrite <- off_boff in Hp. rewrite S2 in Hi.
    transitivity (total_len (flen (FExpGolomb i)) obs); [|exact (R (FExpGolomb i) Hi)]. apply total_len_ext. intros n.
    unfold code_len, call_len, direct_call. cbn [ckind carg cvar cparam kind_eqb flen]. congruence.
  - apply vec_total_fld in Hx. destruct Hx as (i & Hi & <- & Hp). cbn [cparam] in Hp.
    rewrite <- off_boff in Hp. rewrite S3 in Hi.
    transitivity (total_len (flen (FRice i)) obs); [|exact (R (FRice i) Hi)]. apply total_len_ext. intros n.
    unfold code_len, call_len, direct_call. cbn [ckind carg cvar cparam kind_eqb flen]. congruence.
Qed.

(* best_code on observed statistics: re-encoding the observed values with the reported code
   costs exactly `cost` bits, and no tracked code is cheaper *)
Theorem best_code_exact : forall obs s c cost,
  observe obs = Some s -> best_code s = (c, cost) ->
  total_len (code_len c) obs = Some cost /\
  forall c' x, tracked_total s c' = Some x ->
    total_len (code_len c') obs = Some x /\ cost <= x.
Proof.
  intros obs s c cost H B. destruct (best_code_min s c cost B) as [T M]. split.
  - eapply tracked_total_exact; eauto.
  - intros c' x Hx. split; [eapply tracked_total_exact; eauto|eauto].
Qed.

(* ------------------------------------------------------------------ *)
(* Examples: the hypotheses are satisfiable on concrete data *)

Definition ex_obs : list (N * N) := [(5, 1); (1000, 3); (0, 2)].
Definition ex_obs2 : list (N * N) := [(77, 4); (123456789, 1)].

Example ex_observe_defined : exists s, observe ex_obs = Some s.
Proof. vm_compute. eexists; reflexivity. Qed.

Example ex_best_code :
  option_map best_code (observe ex_obs) = Some ({| cvar := VZeta; cparam := 5 |}, 52).
Proof. vm_compute. reflexivity. Qed.

(* hypotheses of exact_defined *)
Example ex_totals_fit : totals_fit ex_obs.
Proof. apply exact_defined_iff, ex_observe_defined. Qed.

(* hypothesis of update_many_iter *)
Example ex_update_many : exists s', update_many stats_default 7 3 = Some s'.
Proof. vm_compute. eexists; reflexivity. Qed.

(* hypotheses of merge_union, with a defined merge *)
Example ex_merge : exists sa sb s,
  observe ex_obs = Some sa /\ observe ex_obs2 = Some sb /\ stats_add sa sb = Some s /\
  best_code s = ({| cvar := VPi; cparam := 2 |}, 128).
Proof.
  destruct (observe ex_obs) as [sa|] eqn:Ea; [|vm_compute in Ea; discriminate].
  destruct (observe ex_obs2) as [sb|] eqn:Eb; [|vm_compute in Eb; discriminate].
  destruct (stats_add sa sb) as [s|] eqn:Es.
  - exists sa, sb, s. repeat split; auto.
    vm_compute in Ea, Eb. inversion Ea; subst sa. inversion Eb; subst sb.
    vm_compute in Es. inversion Es; subst s. vm_compute. reflexivity.
  - vm_compute in Ea, Eb. inversion Ea; subst sa. inversion Eb; subst sb.
    vm_compute in Es. discriminate.
Qed.

(* hypothesis of interleavings_partial: a schedule of two threads *)
Example ex_interleaving :
  interleaving [ex_obs; ex_obs2] [(77, 4); (5, 1); (1000, 3); (123456789, 1); (0, 2)].
Proof.
  unfold ex_obs, ex_obs2.
  apply (il_step [ [(5, 1); (1000, 3); (0, 2)] ] (77, 4) [(123456789, 1)] []). cbn [app].
  apply (il_step [] (5, 1) [(1000, 3); (0, 2)] [ [(123456789, 1)] ]). cbn [app].
  apply (il_step [] (1000, 3) [(0, 2)] [ [(123456789, 1)] ]). cbn [app].
  apply (il_step [ [(0, 2)] ] (123456789, 1) [] []). cbn [app].
  apply (il_step [] (0, 2) [] [ [] ]). cbn [app].
  apply il_done. repeat constructor.
Qed.

(* hypotheses of best_code_exact, and its conclusion on the example *)
Example ex_best_code_exact :
  total_len (code_len {| cvar := VZeta; cparam := 5 |}) ex_obs = Some 52.
Proof. vm_compute. reflexivity. Qed.
