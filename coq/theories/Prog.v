(* Prog.v — L1 vocabulary: read / write programs over the BitRead / BitWrite trait
   interface (free monads), their generic interpreter, and the L0 (bit list)
   interpretation.  Codes in Codes.v are values of these types, written to mirror
   the Rust functions call by call. *)
From DSI Require Export Base.

(* ------------------------------------------------------------------ *)
(* Read programs: the calls a code makes on a `BitRead`. *)
Inductive rprog (A : Type) : Type :=
| RRet (a : A)
| RBits (n : N) (k : N -> rprog A)              (* read_bits(n)? *)
| RUnary (k : N -> rprog A)                      (* read_unary()? *)
| RPeek (n : N) (k : option N -> rprog A)        (* peek_bits(n): Ok(v) -> Some v, Err -> None *)
| RPeekQ (n : N) (k : N -> rprog A)              (* peek_bits(n)?  (error propagated) *)
| RSkipAP (n : N) (k : rprog A)                  (* skip_bits_after_peek(n) *)
| RFail.                                          (* panic / overflow *)
Arguments RRet {A} a. Arguments RBits {A} n k. Arguments RUnary {A} k.
Arguments RPeek {A} n k. Arguments RPeekQ {A} n k. Arguments RSkipAP {A} n k. Arguments RFail {A}.

Fixpoint rbind {A B} (p : rprog A) (f : A -> rprog B) : rprog B :=
  match p with
  | RRet a => f a
  | RBits n k => RBits n (fun v => rbind (k v) f)
  | RUnary k => RUnary (fun v => rbind (k v) f)
  | RPeek n k => RPeek n (fun v => rbind (k v) f)
  | RPeekQ n k => RPeekQ n (fun v => rbind (k v) f)
  | RSkipAP n k => RSkipAP n (rbind k f)
  | RFail => RFail
  end.

Definition rlift {A B} (o : option A) (f : A -> rprog B) : rprog B :=
  match o with Some a => f a | None => RFail end.

(* The primitive operations of a reader over a state type S. *)
Record rprims (S : Type) := {
  p_bits : N -> S -> outcome (N * S);
  p_unary : S -> outcome (N * S);
  p_peek : N -> S -> outcome (N * S);     (* may refill: returns the new state *)
  p_skipap : N -> S -> outcome S;
}.
Arguments p_bits {S}. Arguments p_unary {S}. Arguments p_peek {S}. Arguments p_skipap {S}.

Fixpoint rrun {S A} (P : rprims S) (p : rprog A) (s : S) : outcome (A * S) :=
  match p with
  | RRet a => Ok (a, s)
  | RBits n k => match p_bits P n s with
                 | Ok (v, s') => rrun P (k v) s' | Err => Err | Fail => Fail | Fuel => Fuel end
  | RUnary k => match p_unary P s with
                | Ok (v, s') => rrun P (k v) s' | Err => Err | Fail => Fail | Fuel => Fuel end
  | RPeek n k => match p_peek P n s with
                 | Ok (v, s') => rrun P (k (Some v)) s'
                 | Err => rrun P (k None) s      (* failed refill leaves the reader unchanged *)
                 | Fail => Fail | Fuel => Fuel end
  | RPeekQ n k => match p_peek P n s with
                  | Ok (v, s') => rrun P (k v) s' | Err => Err | Fail => Fail | Fuel => Fuel end
  | RSkipAP n k => match p_skipap P n s with
                   | Ok s' => rrun P k s' | Err => Err | Fail => Fail | Fuel => Fuel end
  | RFail => Fail
  end.

(* ------------------------------------------------------------------ *)
(* Write programs: the calls a code makes on a `BitWrite`.  Continuations receive
   the `usize` the call returned. *)
Inductive wprog (A : Type) : Type :=
| WRet (a : A)
| WBits (v n : N) (k : N -> wprog A)             (* write_bits(v, n)? *)
| WUnary (x : N) (k : N -> wprog A)              (* write_unary(x)? *)
| WFail.
Arguments WRet {A} a. Arguments WBits {A} v n k. Arguments WUnary {A} x k. Arguments WFail {A}.

Fixpoint wbind {A B} (p : wprog A) (f : A -> wprog B) : wprog B :=
  match p with
  | WRet a => f a
  | WBits v n k => WBits v n (fun r => wbind (k r) f)
  | WUnary x k => WUnary x (fun r => wbind (k r) f)
  | WFail => WFail
  end.
Definition wlift {A B} (o : option A) (f : A -> wprog B) : wprog B :=
  match o with Some a => f a | None => WFail end.

Record wprims (S : Type) := {
  q_bits : N -> N -> S -> outcome (N * S);
  q_unary : N -> S -> outcome (N * S);
}.
Arguments q_bits {S}. Arguments q_unary {S}.

Fixpoint wrun {S A} (Q : wprims S) (p : wprog A) (s : S) : outcome (A * S) :=
  match p with
  | WRet a => Ok (a, s)
  | WBits v n k => match q_bits Q v n s with
                   | Ok (r, s') => wrun Q (k r) s' | Err => Err | Fail => Fail | Fuel => Fuel end
  | WUnary x k => match q_unary Q x s with
                  | Ok (r, s') => wrun Q (k r) s' | Err => Err | Fail => Fail | Fuel => Fuel end
  | WFail => Fail
  end.

Declare Scope prog_scope.
Notation "x <- p ;; q" := (rbind p (fun x => q)) (at level 61, p at next level, right associativity) : prog_scope.
Notation "x <~ o ;; q" := (rlift o (fun x => q)) (at level 61, o at next level, right associativity) : prog_scope.

(* ------------------------------------------------------------------ *)
(* L0: the specification reader.  State = the bits not yet consumed, the number of
   bits consumed so far, all of it in stream order.  `strict` = error past the end,
   otherwise the stream is followed by infinitely many zeros.  `cap` = the largest
   peek the reader supports (backend word size for the buffered reader, 32 for the
   unbuffered one). *)
(* sr_peeked: how many bits the last peek(s) made available for skip_bits_after_peek — the
   contract of that hidden method is that it follows a peek of at least as many bits *)
Record sreader := { sr_rest : bits; sr_pos : N; sr_peeked : N }.

Section SpecReader.
  Variable E : endian.
  Variable strict : bool.
  Variable cap : N.

  Definition s_take (n : N) (s : sreader) : outcome (bits * sreader) :=
    let k := N.to_nat n in
    if (n <=? N.of_nat (length (sr_rest s))) then
      Ok (firstn k (sr_rest s), {| sr_rest := skipn k (sr_rest s); sr_pos := sr_pos s + n; sr_peeked := 0 |})
    else if strict then Err
    else Ok (take_pad k (sr_rest s), {| sr_rest := []; sr_pos := sr_pos s + n; sr_peeked := 0 |}).

  Definition s_bits (n : N) (s : sreader) : outcome (N * sreader) :=
    if 64 <? n then Fail else
    match s_take n s with
    | Ok (bs, s') => Ok (val E bs, s') | Err => Err | Fail => Fail | Fuel => Fuel end.

  (* read_unary: scan to the first one.  A zero-extended stream without a one
     makes the Rust loop forever: Fuel. *)
  Definition s_unary (s : sreader) : outcome (N * sreader) :=
    match count_zeros (sr_rest s) with
    | Some z => Ok (z, {| sr_rest := skipn (S (N.to_nat z)) (sr_rest s); sr_pos := sr_pos s + z + 1; sr_peeked := 0 |})
    | None => if strict then Err else Fuel
    end.

  Definition s_peek (n : N) (s : sreader) : outcome (N * sreader) :=
    if (n =? 0) || (cap <? n) then Fail else
    match s_take n s with
    | Ok (bs, _) => Ok (val E bs, {| sr_rest := sr_rest s; sr_pos := sr_pos s; sr_peeked := N.max (sr_peeked s) n |})
    | Err => Err | Fail => Fail | Fuel => Fuel end.

  Definition s_skipap (n : N) (s : sreader) : outcome sreader :=
    if sr_peeked s <? n then Fail else
    match s_take n s with
    | Ok (_, s') => Ok {| sr_rest := sr_rest s'; sr_pos := sr_pos s'; sr_peeked := sr_peeked s - n |}
    | Err => Fail | Fail => Fail | Fuel => Fuel end.

  Definition s_skip (n : N) (s : sreader) : outcome sreader :=
    match s_take n s with
    | Ok (_, s') => Ok s' | Err => Err | Fail => Fail | Fuel => Fuel end.

  Definition sprims : rprims sreader :=
    {| p_bits := s_bits; p_unary := s_unary; p_peek := s_peek; p_skipap := s_skipap |}.
End SpecReader.

Definition sreader_of (bs : bits) : sreader := {| sr_rest := bs; sr_pos := 0; sr_peeked := 0 |}.

(* L0: the specification writer.  State = the bits written so far.  With `checks`
   a write whose value does not fit panics (feature "checks"). *)
Section SpecWriter.
  Variable E : endian.
  Variable checks : bool.

  Definition sw_bits (v n : N) (s : bits) : outcome (N * bits) :=
    if 64 <? n then Fail
    else if checks && negb (N.land v (mask_u128 n) =? v) then Fail
    else Ok (n, s ++ field E v (N.to_nat n)).
  Definition sw_unary (x : N) (s : bits) : outcome (N * bits) :=
    if x =? U64MAX then Fail else Ok (x + 1, s ++ unary x).
  Definition swprims : wprims bits := {| q_bits := sw_bits; q_unary := sw_unary |}.
End SpecWriter.
