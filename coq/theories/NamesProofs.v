(* NamesProofs.v — property C16: code names and identifiers round-trip.
   All facts about the generated tables (display_arms, fromstr_*_arms, to/from_const_arms,
   eq_classes, eq_plain) are boolean checks evaluated by vm_compute over the tables as
   generated now, lifted by generic lemmas; no table content is repeated here. *)
From Coq Require Import ZArith ZifyBool ZifyNat ZifyN.
Ltac Zify.zify_post_hook ::= Z.div_mod_to_equations.
From Coq Require Import List NArith Lia Bool String Ascii Decimal DecimalString DecimalN DecimalPos.
From DSI Require Import Names.
Import ListNotations.
Local Open Scope string_scope.
Local Open Scope N_scope.

(* ------------------------------------------------------------------------- *)
(** * Part 1 — decimal text *)

Definition is_digit (a : ascii) : bool := (48 <=? N_of_ascii a) && (N_of_ascii a <=? 57).
Definition digit_val (a : ascii) : N := N_of_ascii a - 48.
Fixpoint all_digits (s : string) : bool :=
  match s with EmptyString => true | String a r => is_digit a && all_digits r end.
(* value of a digit string, most significant digit first *)
Fixpoint dec_acc (acc : N) (s : string) : N :=
  match s with EmptyString => acc | String a r => dec_acc (digit_val a + 10 * acc) r end.
Definition dec_value (s : string) : N := dec_acc 0 s.
Definition strip_plus (s : string) : string :=
  match s with String "+"%char r => r | _ => s end.

Fixpoint has_char (c : ascii) (s : string) : bool :=
  match s with EmptyString => false | String a r => Ascii.eqb a c || has_char c r end.

Lemma parse_usize_unfold s :
  parse_usize s =
  match NilZero.uint_of_string (strip_plus s) with
  | Some d => if N.of_uint d <? W64 then Some (N.of_uint d) else None
  | None => None
  end.
Proof. reflexivity. Qed.

Lemma uint_of_char_digit a d :
  is_digit a = true -> exists d', uint_of_char a (Some d) = Some d'.
Proof.
  destruct a as [[|] [|] [|] [|] [|] [|] [|] [|]]; vm_compute; intros H;
    try discriminate H; eexists; reflexivity.
Qed.

Lemma uint_of_char_nondigit a d :
  is_digit a = false -> uint_of_char a d = None.
Proof.
  destruct d; [|reflexivity].
  destruct a as [[|] [|] [|] [|] [|] [|] [|] [|]]; vm_compute; intros H;
    try discriminate H; reflexivity.
Qed.

Lemma ne_uint_of_string_digits s :
  all_digits s = true <-> exists d, NilEmpty.uint_of_string s = Some d.
Proof.
  induction s as [|a s IH]; cbn [all_digits NilEmpty.uint_of_string].
  - split; eauto.
  - rewrite andb_true_iff, IH. split.
    + intros [Ha [d Hd]]. rewrite Hd. apply uint_of_char_digit; exact Ha.
    + intros [d' H]. destruct (is_digit a) eqn:Ha.
      * split; [reflexivity|]. destruct (NilEmpty.uint_of_string s); eauto.
      * rewrite uint_of_char_nondigit in H by exact Ha. discriminate.
Qed.

Lemma ne_string_of_uint_digits d : all_digits (NilEmpty.string_of_uint d) = true.
Proof.
  induction d; cbn [NilEmpty.string_of_uint all_digits]; try rewrite IHd; reflexivity.
Qed.

Lemma nz_string_of_uint_digits d : all_digits (NilZero.string_of_uint d) = true.
Proof.
  destruct d; try apply (ne_string_of_uint_digits (_ _)); reflexivity.
Qed.

Lemma of_lu_revapp_dec d d' :
  DecimalPos.Unsigned.of_lu (Decimal.revapp d d') = dec_acc (DecimalPos.Unsigned.of_lu d') (NilEmpty.string_of_uint d).
Proof.
  revert d'. induction d; intro d';
    cbn [Decimal.revapp NilEmpty.string_of_uint dec_acc]; try rewrite IHd; reflexivity.
Qed.

Lemma of_uint_dec_value d : N.of_uint d = dec_value (NilEmpty.string_of_uint d).
Proof.
  unfold N.of_uint. rewrite DecimalPos.Unsigned.of_uint_alt. unfold Decimal.rev.
  rewrite of_lu_revapp_dec. reflexivity.
Qed.

Lemma strip_plus_digits s : all_digits s = true -> strip_plus s = s.
Proof.
  destruct s as [|a r]; [reflexivity|]. cbn [all_digits]. rewrite andb_true_iff.
  intros [Ha _].
  destruct a as [[|] [|] [|] [|] [|] [|] [|] [|]]; try reflexivity; discriminate Ha.
Qed.

Lemma to_uint_nonnil n : N.to_uint n <> Nil.
Proof. destruct n; cbn; [discriminate|apply DecimalPos.Unsigned.to_uint_nonnil]. Qed.

Lemma print_usize_digits n : all_digits (print_usize n) = true.
Proof. apply nz_string_of_uint_digits. Qed.

Lemma print_usize_nonempty n : print_usize n <> "".
Proof.
  unfold print_usize. intros H.
  assert (E := NilZero.usu (N.to_uint n) (to_uint_nonnil n)). rewrite H in E. discriminate.
Qed.

(* the key lemma: printing then parsing a 64-bit number *)
Lemma parse_print_usize n : n < W64 -> parse_usize (print_usize n) = Some n.
Proof.
  intros Hn. rewrite parse_usize_unfold, strip_plus_digits by apply print_usize_digits.
  unfold print_usize. rewrite NilZero.usu by apply to_uint_nonnil.
  rewrite DecimalN.Unsigned.of_to.
  apply N.ltb_lt in Hn. rewrite Hn. reflexivity.
Qed.

Lemma parse_print_usize_overflow n : W64 <= n -> parse_usize (print_usize n) = None.
Proof.
  intros Hn. rewrite parse_usize_unfold, strip_plus_digits by apply print_usize_digits.
  unfold print_usize. rewrite NilZero.usu by apply to_uint_nonnil.
  rewrite DecimalN.Unsigned.of_to.
  apply N.ltb_ge in Hn. rewrite Hn. reflexivity.
Qed.

(* complete characterisation of usize parsing, independent of the Decimal library:
   optional '+', then a non-empty string of digits whose value is below 2^64 *)
Theorem parse_usize_spec k n :
  parse_usize k = Some n <->
  strip_plus k <> "" /\ all_digits (strip_plus k) = true /\
  dec_value (strip_plus k) = n /\ n < W64.
Proof.
  rewrite parse_usize_unfold. set (body := strip_plus k). split.
  - destruct (NilZero.uint_of_string body) as [d|] eqn:Hd; [|discriminate].
    destruct (N.of_uint d <? W64) eqn:Hlt; [|discriminate]. intros [= <-].
    assert (Hne : body <> "") by (intros E; rewrite E in Hd; discriminate).
    assert (Hd' : NilEmpty.uint_of_string body = Some d)
      by (destruct body; [congruence|exact Hd]).
    split; [exact Hne|]. split; [apply ne_uint_of_string_digits; eauto|].
    split; [|apply N.ltb_lt; exact Hlt].
    rewrite of_uint_dec_value, (NilEmpty.sus _ _ Hd'). reflexivity.
  - intros (Hne & Hdig & Hval & Hlt).
    apply ne_uint_of_string_digits in Hdig. destruct Hdig as [d Hd].
    assert (Hd' : NilZero.uint_of_string body = Some d)
      by (destruct body; [congruence|exact Hd]).
    rewrite Hd'. rewrite of_uint_dec_value, (NilEmpty.sus _ _ Hd), Hval.
    apply N.ltb_lt in Hlt. rewrite Hlt. reflexivity.
Qed.

Lemma parse_usize_None_iff k :
  parse_usize k = None <->
  strip_plus k = "" \/ all_digits (strip_plus k) = false \/ W64 <= dec_value (strip_plus k).
Proof.
  split.
  - intros H. destruct (string_dec (strip_plus k) "") as [E|E]; [left; exact E|].
    destruct (all_digits (strip_plus k)) eqn:Hd; [|right; left; reflexivity].
    right; right. destruct (N.le_gt_cases W64 (dec_value (strip_plus k))) as [L|L]; [exact L|].
    assert (parse_usize k = Some (dec_value (strip_plus k)))
      by (apply parse_usize_spec; auto).
    congruence.
  - intros H. destruct (parse_usize k) as [n|] eqn:E; [|reflexivity].
    apply parse_usize_spec in E. destruct E as (E1 & E2 & E3 & E4).
    destruct H as [H|[H|H]]; [congruence|congruence|lia].
Qed.

Lemma parse_usize_empty : parse_usize "" = None.
Proof. reflexivity. Qed.

Lemma parse_usize_nondigit k : all_digits (strip_plus k) = false -> parse_usize k = None.
Proof. intros; apply parse_usize_None_iff; auto. Qed.

Lemma parse_usize_too_big k : W64 <= dec_value (strip_plus k) -> parse_usize k = None.
Proof. intros; apply parse_usize_None_iff; auto. Qed.

Lemma parse_usize_bound k n : parse_usize k = Some n -> n < W64.
Proof. intros H; apply parse_usize_spec in H; tauto. Qed.

(* any character that is not a digit, anywhere after the optional leading '+' *)
Lemma all_digits_false_has_char c s : is_digit c = false -> has_char c s = true -> all_digits s = false.
Proof.
  intros Hc. induction s as [|a r IH]; cbn [has_char all_digits]; [discriminate|].
  intros H. apply orb_true_iff in H. destruct H as [H|H].
  - apply Ascii.eqb_eq in H. subst a. rewrite Hc. reflexivity.
  - rewrite IH by exact H. apply andb_false_r.
Qed.

Lemma digits_no_char c s : is_digit c = false -> all_digits s = true -> has_char c s = false.
Proof.
  intros Hc Hs. destruct (has_char c s) eqn:E; [|reflexivity].
  rewrite (all_digits_false_has_char c s Hc E) in Hs. discriminate.
Qed.

Example parse_usize_examples :
  parse_usize "+5" = Some 5 /\ parse_usize "007" = Some 7 /\ parse_usize "+" = None /\
  parse_usize "++1" = None /\ parse_usize "-1" = None /\ parse_usize "x" = None /\
  parse_usize "3.5" = None /\ parse_usize " 3" = None /\ parse_usize "" = None /\
  parse_usize "18446744073709551615" = Some 18446744073709551615 /\
  parse_usize "18446744073709551616" = None.
Proof. vm_compute. repeat split. Qed.

(* ------------------------------------------------------------------------- *)
(** * Part 2 — strings, split_at, association lists *)

Lemma has_char_app c s1 s2 : has_char c (s1 ++ s2) = has_char c s1 || has_char c s2.
Proof.
  induction s1 as [|a r IH]; cbn [append has_char]; [reflexivity|].
  rewrite IH, orb_assoc. reflexivity.
Qed.

Lemma split_at_nochar c s : has_char c s = false -> split_at c s = (s, None).
Proof.
  induction s as [|a r IH]; cbn [has_char split_at]; [reflexivity|].
  intros H. apply orb_false_iff in H. destruct H as [H1 H2].
  rewrite H1, (IH H2). reflexivity.
Qed.

Lemma split_at_app c s1 r : has_char c s1 = false -> split_at c (s1 ++ String c r) = (s1, Some r).
Proof.
  induction s1 as [|a s IH]; cbn [has_char split_at append].
  - rewrite Ascii.eqb_refl. reflexivity.
  - intros H. apply orb_false_iff in H. destruct H as [H1 H2].
    rewrite H1, (IH H2). reflexivity.
Qed.

Lemma split_at_fst_app c k x :
  has_char c k = false -> fst (split_at c (k ++ x)) = k ++ fst (split_at c x).
Proof.
  induction k as [|a s IH]; cbn [has_char split_at append]; [reflexivity|].
  intros H. apply orb_false_iff in H. destruct H as [H1 H2].
  rewrite H1. specialize (IH H2). destruct (split_at c (s ++ x)) as [h t].
  cbn [fst] in *. rewrite IH. reflexivity.
Qed.

Lemma split_at_fst_nochar c s : has_char c (fst (split_at c s)) = false.
Proof.
  induction s as [|a r IH]; cbn [split_at]; [reflexivity|].
  destruct (Ascii.eqb a c) eqn:E; [reflexivity|].
  destruct (split_at c r) as [h t]. cbn [fst has_char] in *. rewrite E, IH. reflexivity.
Qed.

Lemma split_at_Some c s h r : split_at c s = (h, Some r) -> s = h ++ String c r.
Proof.
  revert h. induction s as [|a s IH]; cbn [split_at]; intros h; [discriminate|].
  destruct (Ascii.eqb a c) eqn:E.
  - intros [= <- <-]. apply Ascii.eqb_eq in E. subst. reflexivity.
  - destruct (split_at c s) as [h' t']. intros [= <- ->]. cbn [append].
    rewrite (IH h' eq_refl). reflexivity.
Qed.

Lemma split_at_None c s h : split_at c s = (h, None) -> s = h /\ has_char c s = false.
Proof.
  revert h. induction s as [|a s IH]; cbn [split_at has_char]; intros h.
  - intros [= <-]. auto.
  - destruct (Ascii.eqb a c) eqn:E; [discriminate|].
    destruct (split_at c s) as [h' t']. intros [= <- ->].
    destruct (IH h' eq_refl) as [-> ->]. auto.
Qed.

(* the parameter text Rust extracts: second item of split('('), first item of split(')') *)
Lemma param_text c1 c2 k rest :
  Ascii.eqb c2 c1 = false -> has_char c1 k = false -> has_char c2 k = false ->
  split_at c2 (fst (split_at c1 (k ++ String c2 rest))) = (k, Some (fst (split_at c1 rest))).
Proof.
  intros Hc H1 H2. rewrite split_at_fst_app by exact H1. cbn [split_at]. rewrite Hc.
  destruct (split_at c1 rest) as [h t]. cbn [fst]. apply split_at_app. exact H2.
Qed.

Lemma param_text_unclosed c1 c2 k :
  has_char c1 k = false -> has_char c2 k = false ->
  split_at c2 (fst (split_at c1 k)) = (k, None).
Proof.
  intros H1 H2. rewrite (split_at_nochar c1 k H1). cbn [fst]. apply split_at_nochar. exact H2.
Qed.

Lemma assocS_In {A} (l : list (string * A)) k v : assocS l k = Some v -> In (k, v) l.
Proof.
  induction l as [|[k' a] r IH]; cbn [assocS]; [discriminate|].
  destruct (String.eqb k' k) eqn:E.
  - intros [= ->]. apply String.eqb_eq in E. subst. left. reflexivity.
  - intros H. right. auto.
Qed.

Lemma assocS_None_notkey {A} (l : list (string * A)) k :
  assocS l k = None <-> ~ In k (map fst l).
Proof.
  induction l as [|[k' a] r IH]; cbn [assocS map fst In]; [tauto|].
  destruct (String.eqb k' k) eqn:E.
  - apply String.eqb_eq in E. split; [discriminate|]. intros H; exfalso; apply H; auto.
  - apply String.eqb_neq in E. rewrite IH. tauto.
Qed.

(* a lookup of a string containing character c in a list none of whose keys contains c *)
Definition keys_without {A} (c : ascii) (l : list (string * A)) : bool :=
  forallb (fun kv => negb (has_char c (fst kv))) l.

Lemma assocS_keys_without {A} c (l : list (string * A)) s :
  keys_without c l = true -> has_char c s = true -> assocS l s = None.
Proof.
  unfold keys_without. induction l as [|[k' a] r IH]; cbn [forallb assocS fst]; [reflexivity|].
  rewrite andb_true_iff, negb_true_iff. intros [H1 H2] Hs.
  destruct (String.eqb k' s) eqn:E; [|auto].
  apply String.eqb_eq in E. congruence.
Qed.

Lemma variant_eqb_eq a b : variant_eqb a b = true <-> a = b.
Proof. destruct a, b; cbn; split; congruence. Qed.

Lemma variant_eqb_refl a : variant_eqb a a = true.
Proof. apply variant_eqb_eq. reflexivity. Qed.

Lemma code_eqb_eq a b : code_eqb a b = true <-> a = b.
Proof.
  destruct a as [va pa], b as [vb pb]. unfold code_eqb. cbn [cvar cparam].
  rewrite andb_true_iff, variant_eqb_eq, N.eqb_eq. split; [intros [-> ->]; reflexivity|].
  intros [= -> ->]. auto.
Qed.

Definition all_variants : list variant :=
  [VUnary; VGamma; VDelta; VOmega; VVByteLe; VVByteBe; VZeta; VPi; VGolomb; VExpGolomb; VRice].
Lemma all_variants_complete v : In v all_variants.
Proof. destruct v; cbn; tauto. Qed.

(* ------------------------------------------------------------------------- *)
(** * Part 3 — from_str, characterised for every string *)

Definition LP : ascii := "("%char.
Definition RP : ascii := ")"%char.

Definition lit_keys_ok : bool := keys_without LP fromstr_literal_arms.
Lemma lit_keys_ok_true : lit_keys_ok = true.
Proof. vm_compute. reflexivity. Qed.

Lemma from_str_unfold s :
  from_str s =
  match assocS fromstr_literal_arms s with
  | Some v => POk {| cvar := v; cparam := 0 |}
  | None =>
      match snd (split_at LP s) with
      | None => PUnknown
      | Some r =>
          match assocS fromstr_param_arms (fst (split_at LP s)) with
          | Some v => match parse_usize (fst (split_at RP (fst (split_at LP r)))) with
                      | Some n => POk {| cvar := v; cparam := n |}
                      | None => PParseErr end
          | None => PUnknown
          end
      end
  end.
Proof.
  unfold from_str, LP, RP. destruct (assocS fromstr_literal_arms s); [reflexivity|].
  destruct (split_at "(" s) as [name [r|]]; cbn [fst snd]; [|reflexivity].
  destruct (split_at "(" r) as [r1 t1]. cbn [fst]. destruct (split_at ")" r1) as [k t2].
  reflexivity.
Qed.

(* strings without '(' : only the literal names are accepted *)
Lemma from_str_noparen s :
  has_char LP s = false ->
  from_str s = match assocS fromstr_literal_arms s with
               | Some v => POk {| cvar := v; cparam := 0 |} | None => PUnknown end.
Proof.
  intros H. rewrite from_str_unfold, (split_at_nochar LP s H). cbn [snd].
  destruct (assocS fromstr_literal_arms s); reflexivity.
Qed.

(* strings with a '(' : name, then the parameter text *)
Lemma from_str_paren name r :
  has_char LP name = false ->
  from_str (name ++ String LP r) =
  match assocS fromstr_param_arms name with
  | Some v => match parse_usize (fst (split_at RP (fst (split_at LP r)))) with
              | Some n => POk {| cvar := v; cparam := n |}
              | None => PParseErr end
  | None => PUnknown
  end.
Proof.
  intros H. rewrite from_str_unfold.
  rewrite (assocS_keys_without LP fromstr_literal_arms _ lit_keys_ok_true)
    by (rewrite has_char_app; cbn [has_char]; rewrite Ascii.eqb_refl; apply orb_true_r).
  rewrite (split_at_app LP name r H). cbn [fst snd]. reflexivity.
Qed.

Lemma paren_app_eq name x : name ++ "(" ++ x = name ++ String LP x.
Proof. reflexivity. Qed.

(* ------------------------------------------------------------------------- *)
(** * Part 4 — display / from_str round trip and rejections *)

Definition wf_code (c : code) : Prop := has_param (cvar c) = false -> cparam c = 0.

Definition lookup_is (l : list (string * variant)) (name : string) (v : variant) : bool :=
  match assocS l name with Some v' => variant_eqb v' v | None => false end.
Definition lookup_none (l : list (string * variant)) (name : string) : bool :=
  match assocS l name with Some _ => false | None => true end.

Lemma lookup_is_spec l name v : lookup_is l name v = true -> assocS l name = Some v.
Proof.
  unfold lookup_is. destruct (assocS l name); [|discriminate].
  intros H. apply variant_eqb_eq in H. congruence.
Qed.
Lemma lookup_none_spec l name : lookup_none l name = true -> assocS l name = None.
Proof. unfold lookup_none. destruct (assocS l name); [discriminate|reflexivity]. Qed.

(* per variant: the Display arm has the right shape, its name has no parenthesis and the
   FromStr tables map the name back to the variant (parameterless: literal table and not in
   the parameter table; with parameter: parameter table and not in the literal table) *)
Definition name_ok (v : variant) : bool :=
  match find_display display_arms v with
  | Some (name, p) =>
      Bool.eqb p (has_param v) && negb (has_char LP name) &&
      (if p then lookup_is fromstr_param_arms name v && lookup_none fromstr_literal_arms name
       else lookup_is fromstr_literal_arms name v && lookup_none fromstr_param_arms name)
  | None => false
  end.
Definition names_consistent : bool := lit_keys_ok && forallb name_ok all_variants.

Lemma names_consistent_true : names_consistent = true.
Proof. vm_compute. reflexivity. Qed.

Lemma name_ok_spec v :
  exists name, find_display display_arms v = Some (name, has_param v) /\
               has_char LP name = false /\
               (if has_param v
                then assocS fromstr_param_arms name = Some v /\ assocS fromstr_literal_arms name = None
                else assocS fromstr_literal_arms name = Some v /\ assocS fromstr_param_arms name = None).
Proof.
  assert (H : name_ok v = true).
  { pose proof names_consistent_true as H. unfold names_consistent in H.
    apply andb_true_iff in H. destruct H as [_ H].
    rewrite forallb_forall in H. apply H, all_variants_complete. }
  unfold name_ok in H. destruct (find_display display_arms v) as [[name p]|]; [|discriminate].
  apply andb_true_iff in H. destruct H as [H H3]. apply andb_true_iff in H. destruct H as [H1 H2].
  apply Bool.eqb_prop in H1. subst p. apply negb_true_iff in H2.
  exists name. split; [reflexivity|]. split; [exact H2|].
  destruct (has_param v); apply andb_true_iff in H3; destruct H3 as [Ha Hb];
    split; auto using lookup_is_spec, lookup_none_spec.
Qed.

Lemma LP_not_digit : is_digit LP = false. Proof. reflexivity. Qed.
Lemma RP_not_digit : is_digit RP = false. Proof. reflexivity. Qed.
Lemma RP_LP : Ascii.eqb RP LP = false. Proof. reflexivity. Qed.

(* text "name(k)rest" with a known parameter name: the result is decided by parse_usize k *)
Lemma from_str_param_form name v k rest :
  assocS fromstr_param_arms name = Some v -> has_char LP name = false ->
  has_char LP k = false -> has_char RP k = false ->
  from_str (name ++ "(" ++ k ++ ")" ++ rest) =
  match parse_usize k with Some n => POk {| cvar := v; cparam := n |} | None => PParseErr end.
Proof.
  intros Hv Hn Hk1 Hk2. rewrite paren_app_eq, (from_str_paren name _ Hn), Hv.
  change (k ++ ")" ++ rest) with (k ++ String RP rest).
  rewrite (param_text LP RP k rest RP_LP Hk1 Hk2). reflexivity.
Qed.

Lemma from_str_param_form0 name v k :
  assocS fromstr_param_arms name = Some v -> has_char LP name = false ->
  has_char LP k = false -> has_char RP k = false ->
  from_str (name ++ "(" ++ k ++ ")") =
  match parse_usize k with Some n => POk {| cvar := v; cparam := n |} | None => PParseErr end.
Proof. exact (from_str_param_form name v k ""). Qed.

Lemma from_str_param_form_unclosed name v k :
  assocS fromstr_param_arms name = Some v -> has_char LP name = false ->
  has_char LP k = false -> has_char RP k = false ->
  from_str (name ++ "(" ++ k) =
  match parse_usize k with Some n => POk {| cvar := v; cparam := n |} | None => PParseErr end.
Proof.
  intros Hv Hn Hk1 Hk2. rewrite paren_app_eq, (from_str_paren name _ Hn), Hv.
  rewrite (param_text_unclosed LP RP k Hk1 Hk2). reflexivity.
Qed.

Theorem display_parse c :
  wf_code c -> cparam c < W64 -> exists s, display c = Some s /\ from_str s = POk c.
Proof.
  intros Hwf Hlt. destruct c as [v p]. unfold wf_code in Hwf. cbn [cvar cparam] in *.
  destruct (name_ok_spec v) as (name & Hd & Hnp & Hlk).
  unfold display. cbn [cvar cparam]. rewrite Hd. destruct (has_param v) eqn:Hp.
  - destruct Hlk as [Hlk _]. eexists. split; [reflexivity|].
    rewrite (from_str_param_form0 name v (print_usize p) Hlk Hnp)
      by (apply digits_no_char; [reflexivity|apply print_usize_digits]).
    rewrite (parse_print_usize p Hlt). reflexivity.
  - destruct Hlk as [Hlk _]. exists name. split; [reflexivity|].
    rewrite (from_str_noparen name Hnp), Hlk, (Hwf eq_refl). reflexivity.
Qed.

(* the parameter bound is necessary: a larger parameter is displayed but not parsed back
   (it cannot occur in the library, usize being 64 bits) *)
Lemma display_parse_overflow v p :
  has_param v = true -> W64 <= p ->
  exists s, display {| cvar := v; cparam := p |} = Some s /\ from_str s = PParseErr.
Proof.
  intros Hp Hge. destruct (name_ok_spec v) as (name & Hd & Hnp & Hlk). rewrite Hp in *.
  destruct Hlk as [Hlk _]. unfold display. cbn [cvar cparam]. rewrite Hd.
  eexists. split; [reflexivity|].
  rewrite (from_str_param_form0 name v (print_usize p) Hlk Hnp)
    by (apply digits_no_char; [reflexivity|apply print_usize_digits]).
  rewrite (parse_print_usize_overflow p Hge). reflexivity.
Qed.

Theorem reject_unknown_name s :
  assocS fromstr_param_arms (fst (split_at "("%char s)) = None ->
  assocS fromstr_literal_arms s = None -> from_str s = PUnknown.
Proof.
  intros H1 H2. rewrite from_str_unfold, H2. fold LP in H1. rewrite H1.
  destruct (snd (split_at LP s)); reflexivity.
Qed.

Theorem reject_missing_param s :
  has_char "("%char s = false -> assocS fromstr_literal_arms s = None -> from_str s = PUnknown.
Proof. intros H1 H2. rewrite (from_str_noparen s H1), H2. reflexivity. Qed.

(* in particular the bare name of every variant that takes a parameter *)
Theorem reject_missing_param_names v :
  has_param v = true ->
  exists name, (forall p, display {| cvar := v; cparam := p |} = Some (name ++ "(" ++ print_usize p ++ ")")) /\
    from_str name = PUnknown /\ from_str (name ++ "(") = PParseErr /\ from_str (name ++ "()") = PParseErr.
Proof.
  intros Hp. destruct (name_ok_spec v) as (name & Hd & Hnp & Hlk). rewrite Hp in *.
  destruct Hlk as [Hlk Hlit]. exists name. split; [|split; [|split]].
  - intros p. unfold display. cbn [cvar cparam]. rewrite Hd. reflexivity.
  - rewrite (from_str_noparen name Hnp), Hlit. reflexivity.
  - exact (from_str_param_form_unclosed name v "" Hlk Hnp eq_refl eq_refl).
  - exact (from_str_param_form0 name v "" Hlk Hnp eq_refl eq_refl).
Qed.

Theorem reject_bad_param name k rest v :
  assocS fromstr_param_arms name = Some v -> has_char "("%char name = false ->
  has_char "("%char k = false -> has_char ")"%char k = false ->
  parse_usize k = None ->
  from_str (name ++ "(" ++ k ++ ")" ++ rest) = PParseErr /\ from_str (name ++ "(" ++ k) = PParseErr.
Proof.
  intros Hv Hn Hk1 Hk2 Hp.
  rewrite (from_str_param_form name v k rest Hv Hn Hk1 Hk2),
          (from_str_param_form_unclosed name v k Hv Hn Hk1 Hk2), Hp. auto.
Qed.

(* dual: a well-formed parameter text is accepted *)
Theorem accept_good_param name k rest v n :
  assocS fromstr_param_arms name = Some v -> has_char "("%char name = false ->
  has_char "("%char k = false -> has_char ")"%char k = false ->
  parse_usize k = Some n ->
  from_str (name ++ "(" ++ k ++ ")" ++ rest) = POk {| cvar := v; cparam := n |}.
Proof.
  intros Hv Hn Hk1 Hk2 Hp. rewrite (from_str_param_form name v k rest Hv Hn Hk1 Hk2), Hp. reflexivity.
Qed.

(* a parameterless variant's name followed by "(" and anything is rejected *)
Theorem parameterless_with_param_rejected v name :
  has_param v = false -> display {| cvar := v; cparam := 0 |} = Some name ->
  forall r, from_str (name ++ "(" ++ r) = PUnknown.
Proof.
  intros Hp Hd r. destruct (name_ok_spec v) as (name' & Hd' & Hnp & Hlk). rewrite Hp in *.
  unfold display in Hd. cbn [cvar] in Hd. rewrite Hd' in Hd. injection Hd as <-.
  destruct Hlk as [_ Hnone]. rewrite paren_app_eq, (from_str_paren name' r Hnp), Hnone. reflexivity.
Qed.

(* the same for every literal key of FromStr, by computation over the literal table *)
Definition literal_keys_not_param : bool :=
  forallb (fun kv => lookup_none fromstr_param_arms (fst kv)) fromstr_literal_arms.
Lemma literal_keys_not_param_true : literal_keys_not_param = true.
Proof. vm_compute. reflexivity. Qed.

Theorem literal_with_param_rejected name v :
  In (name, v) fromstr_literal_arms -> forall r, from_str (name ++ "(" ++ r) = PUnknown.
Proof.
  intros Hin r.
  assert (Hnp : has_char LP name = false).
  { pose proof lit_keys_ok_true as H. unfold lit_keys_ok, keys_without in H.
    rewrite forallb_forall in H. apply H in Hin. apply negb_true_iff in Hin. exact Hin. }
  assert (Hnone : assocS fromstr_param_arms name = None).
  { pose proof literal_keys_not_param_true as H. unfold literal_keys_not_param in H.
    rewrite forallb_forall in H. apply H in Hin. apply lookup_none_spec in Hin. exact Hin. }
  rewrite paren_app_eq, (from_str_paren name r Hnp), Hnone. reflexivity.
Qed.

(* examples *)
Example ex_display : display {| cvar := VZeta; cparam := 3 |} = Some "Zeta(3)".
Proof. vm_compute. reflexivity. Qed.
Example ex_display_unary : display {| cvar := VUnary; cparam := 0 |} = Some "Unary".
Proof. vm_compute. reflexivity. Qed.
Example ex_vbytele : from_str "VByteLe" = POk {| cvar := VVByteLe; cparam := 0 |}.
Proof. vm_compute. reflexivity. Qed.
Example ex_zeta_max : from_str "Zeta(18446744073709551615)" = POk {| cvar := VZeta; cparam := 18446744073709551615 |}.
Proof. vm_compute. reflexivity. Qed.
Example ex_zeta_overflow : from_str "Zeta(18446744073709551616)" = PParseErr.
Proof. vm_compute. reflexivity. Qed.
Example ex_unary_param : from_str "Unary(3)" = PUnknown.
Proof. vm_compute. reflexivity. Qed.
Example ex_zeta_bare : from_str "Zeta" = PUnknown.
Proof. vm_compute. reflexivity. Qed.
Example ex_empty : from_str "" = PUnknown.
Proof. vm_compute. reflexivity. Qed.
Example ex_unknown : from_str "Foo(3)" = PUnknown /\ from_str "zeta(3)" = PUnknown /\ from_str "(3)" = PUnknown.
Proof. vm_compute. auto. Qed.
Example ex_bad_params :
  from_str "Zeta(-1)" = PParseErr /\ from_str "Zeta(x)" = PParseErr /\ from_str "Zeta(3.5)" = PParseErr /\
  from_str "Zeta( 3)" = PParseErr /\ from_str "Zeta()" = PParseErr /\ from_str "Zeta(" = PParseErr /\
  from_str "Zeta(18446744073709551616)" = PParseErr /\ from_str "Zeta((3)" = PParseErr.
Proof. vm_compute. repeat split. Qed.
Example ex_lenient : from_str "Zeta(+3)" = POk {| cvar := VZeta; cparam := 3 |} /\
                     from_str "Zeta(3)junk" = POk {| cvar := VZeta; cparam := 3 |}.
Proof. vm_compute. auto. Qed.
(* hypotheses of the main theorems are satisfiable on concrete instances *)
Example ex_display_parse_hyps :
  wf_code {| cvar := VRice; cparam := 18446744073709551615 |} /\
  cparam {| cvar := VRice; cparam := 18446744073709551615 |} < W64 /\
  wf_code {| cvar := VVByteLe; cparam := 0 |}.
Proof. unfold wf_code. cbn. repeat split; try discriminate; auto. Qed.
Example ex_reject_unknown_hyps :
  assocS fromstr_param_arms (fst (split_at "("%char "Foo(3)")) = None /\
  assocS fromstr_literal_arms "Foo(3)" = None.
Proof. vm_compute. auto. Qed.
Example ex_reject_bad_param_hyps :
  assocS fromstr_param_arms "Zeta" = Some VZeta /\ has_char "("%char "Zeta" = false /\
  has_char "("%char "3.5" = false /\ has_char ")"%char "3.5" = false /\ parse_usize "3.5" = None.
Proof. vm_compute. repeat split. Qed.
Example ex_paramless_hyps :
  has_param VUnary = false /\ display {| cvar := VUnary; cparam := 0 |} = Some "Unary" /\
  In ("Unary", VUnary) fromstr_literal_arms.
Proof. vm_compute. auto. Qed.

(* ------------------------------------------------------------------------- *)
(** * Part 5 — compile-time identifiers *)

Lemma assocN_In {A} (l : list (N * A)) k v : assocN l k = Some v -> In (k, v) l.
Proof.
  induction l as [|[k' a] r IH]; cbn [assocN]; [discriminate|].
  destruct (k' =? k) eqn:E.
  - intros [= ->]. apply N.eqb_eq in E. subst. left. reflexivity.
  - intros H. right. auto.
Qed.

Definition ids_upto (n : nat) : list N := map N.of_nat (seq 0 (S n)).
Lemma ids_upto_In n id : id <= N.of_nat n -> In id (ids_upto n).
Proof.
  intros H. unfold ids_upto. rewrite <- (N2Nat.id id). apply in_map, in_seq. lia.
Qed.

Definition id_roundtrip_ok (id : N) : bool :=
  match from_code_const id with
  | Some c => match to_code_const c with Some id' => id' =? id | None => false end
  | None => false
  end.
Definition ids_roundtrip_ok : bool := forallb id_roundtrip_ok (ids_upto 50).
Lemma ids_roundtrip_ok_true : ids_roundtrip_ok = true.
Proof. vm_compute. reflexivity. Qed.

Theorem const_roundtrip_ids id :
  id <= 50 -> exists c, from_code_const id = Some c /\ to_code_const c = Some id.
Proof.
  intros H. pose proof ids_roundtrip_ok_true as Hc. unfold ids_roundtrip_ok in Hc.
  rewrite forallb_forall in Hc. specialize (Hc id (ids_upto_In 50 id H)).
  unfold id_roundtrip_ok in Hc. destruct (from_code_const id) as [c|]; [|discriminate].
  exists c. split; [reflexivity|]. destruct (to_code_const c) as [id'|]; [|discriminate].
  apply N.eqb_eq in Hc. congruence.
Qed.

Definition from_keys_bounded : bool := forallb (fun kv => fst kv <=? 50) from_const_arms.
Lemma from_keys_bounded_true : from_keys_bounded = true.
Proof. vm_compute. reflexivity. Qed.

Theorem const_out_of_range id : 50 < id -> from_code_const id = None.
Proof.
  intros H. unfold from_code_const. destruct (assocN from_const_arms id) as [c|] eqn:E; [|reflexivity].
  apply assocN_In in E. pose proof from_keys_bounded_true as Hb. unfold from_keys_bounded in Hb.
  rewrite forallb_forall in Hb. apply Hb in E. cbn [fst] in E. lia.
Qed.

(* code -> identifier -> code.  The only arm whose image is NOT equal (for the library's
   PartialEq) to the code it started from is found by computation: *)
Definition arm_code (a : variant * option N * N) : code :=
  let '(v, p, _) := a in {| cvar := v; cparam := match p with Some p => p | None => 0 end |}.
Definition arm_back_ok (a : variant * option N * N) : bool :=
  let '(v, p, id) := a in
  match from_code_const id with
  | Some c' => codes_eq (arm_code a) c'
  | None => false
  end.
Definition arm_shape_ok (a : variant * option N * N) : bool :=
  let '(v, p, id) := a in
  match p with Some _ => true | None => negb (has_param v) end.
Definition pi0 : code := {| cvar := VPi; cparam := 0 |}.
Definition to_const_arms_ok : bool :=
  forallb (fun a => arm_shape_ok a && (arm_back_ok a || code_eqb (arm_code a) pi0)) to_const_arms.
Lemma to_const_arms_ok_true : to_const_arms_ok = true.
Proof. vm_compute. reflexivity. Qed.

Lemma find_to_const_In arms c id :
  find_to_const arms c = Some id ->
  exists v p, In (v, p, id) arms /\ v = cvar c /\
              match p with Some l => l = cparam c | None => True end.
Proof.
  induction arms as [|[[v p] id'] r IH]; cbn [find_to_const]; [discriminate|].
  destruct (variant_eqb v (cvar c) && match p with Some l => l =? cparam c | None => true end) eqn:E.
  - intros [= ->]. apply andb_true_iff in E. destruct E as [E1 E2]. apply variant_eqb_eq in E1.
    exists v, p. split; [left; reflexivity|]. split; [exact E1|].
    destruct p; [apply N.eqb_eq; exact E2|exact I].
  - intros H. destruct (IH H) as (v' & p' & Hin & Hv & Hp). exists v', p'. split; [right; exact Hin|auto].
Qed.

(* [_partial]: (1) holds for every well-formed code except Pi{k:0}, see
   const_roundtrip_pi0_refuted below; (2) "equal for codes_eq" is linked to "identical
   codewords" elsewhere. wf_code is necessary: {Unary, 5} is not a value of the Rust enum. *)
Theorem const_roundtrip_codes_partial c id :
  wf_code c -> c <> pi0 -> to_code_const c = Some id ->
  exists c', from_code_const id = Some c' /\ codes_eq c c' = true.
Proof.
  intros Hwf Hne H. unfold to_code_const in H.
  destruct (find_to_const_In _ _ _ H) as (v & p & Hin & Hv & Hp).
  pose proof to_const_arms_ok_true as Hc. unfold to_const_arms_ok in Hc.
  rewrite forallb_forall in Hc. apply Hc in Hin. clear Hc.
  apply andb_true_iff in Hin. destruct Hin as [Hshape Hback].
  assert (Hc : arm_code (v, p, id) = c).
  { destruct c as [cv cp]. unfold wf_code in Hwf. cbn [cvar cparam arm_code] in *. subst cv. destruct p as [l|].
    - subst l. reflexivity.
    - cbn [arm_shape_ok] in Hshape. apply negb_true_iff in Hshape.
      rewrite (Hwf Hshape). reflexivity. }
  apply orb_true_iff in Hback. destruct Hback as [Hback|Hpi].
  - unfold arm_back_ok in Hback. rewrite Hc in Hback.
    destruct (from_code_const id) as [c'|]; [|discriminate]. eauto.
  - apply code_eqb_eq in Hpi. congruence.
Qed.

(* the exception is real: Pi{k:0} maps to the identifier of gamma (PI0 aliases GAMMA), which
   maps back to Gamma, and PartialEq does not put Pi{k:0} in the class of Gamma *)
Theorem const_roundtrip_pi0_refuted :
  exists id c', to_code_const pi0 = Some id /\ from_code_const id = Some c' /\ codes_eq pi0 c' = false.
Proof. eexists; eexists. vm_compute. repeat split. Qed.

(* and wf_code is necessary *)
Example const_roundtrip_needs_wf :
  to_code_const {| cvar := VUnary; cparam := 5 |} = Some 0 /\
  from_code_const 0 = Some {| cvar := VUnary; cparam := 0 |} /\
  codes_eq {| cvar := VUnary; cparam := 5 |} {| cvar := VUnary; cparam := 0 |} = false.
Proof. vm_compute. auto. Qed.

Example ex_const_roundtrip_hyps :
  wf_code {| cvar := VGolomb; cparam := 4 |} /\ {| cvar := VGolomb; cparam := 4 |} <> pi0 /\
  to_code_const {| cvar := VGolomb; cparam := 4 |} = Some 16 /\
  from_code_const 16 = Some {| cvar := VRice; cparam := 2 |} /\
  codes_eq {| cvar := VGolomb; cparam := 4 |} {| cvar := VRice; cparam := 2 |} = true.
Proof. unfold wf_code. cbn [cvar cparam has_param]. repeat split; try discriminate. Qed.

(* ------------------------------------------------------------------------- *)
(** * Part 6 — PartialEq for Codes is an equivalence *)

Section Eq.
  Variable cls : list (list code).
  Variable pl : list (variant * bool).

  Definition in_some_class (a b : code) : Prop :=
    exists cl, In cl cls /\ in_class cl a = true /\ in_class cl b = true.

  Lemma class_eq_cases l a b : class_eq l a b = Some true \/ class_eq l a b = None.
  Proof.
    induction l as [|cl r IH]; cbn [class_eq]; [auto|].
    destruct (in_class cl a && in_class cl b); auto.
  Qed.

  Lemma class_eq_true_iff l a b :
    class_eq l a b = Some true <->
    exists cl, In cl l /\ in_class cl a = true /\ in_class cl b = true.
  Proof.
    induction l as [|cl r IH]; cbn [class_eq In].
    - split; [discriminate|]. intros (cl & [] & _).
    - destruct (in_class cl a && in_class cl b) eqn:E.
      + apply andb_true_iff in E. split; [|reflexivity]. intros _. exists cl. tauto.
      + rewrite IH. split.
        * intros (cl' & H1 & H2). exists cl'. tauto.
        * intros (cl' & [<-|H1] & H2 & H3); [rewrite H2, H3 in E; discriminate|].
          exists cl'. tauto.
  Qed.

  Fixpoint find_plain (l : list (variant * bool)) (v : variant) : option bool :=
    match l with
    | [] => None
    | (v', cmp) :: r => if variant_eqb v' v then Some cmp else find_plain r v
    end.

  Lemma plain_eq_alt l a b :
    plain_eq l a b =
    variant_eqb (cvar a) (cvar b) &&
    match find_plain l (cvar a) with
    | Some cmp => if cmp then cparam a =? cparam b else true
    | None => false end.
  Proof.
    induction l as [|[v cmp] r IH]; cbn [plain_eq find_plain]; [rewrite andb_false_r; reflexivity|].
    destruct (variant_eqb v (cvar a)) eqn:Ea; cbn [andb].
    - apply variant_eqb_eq in Ea. subst v. rewrite IH.
      destruct (variant_eqb (cvar a) (cvar b)); reflexivity.
    - exact IH.
  Qed.

  Definition ceq (a b : code) : bool :=
    match class_eq cls a b with Some t => t | None => plain_eq pl a b end.

  Lemma ceq_true_iff a b :
    ceq a b = true <-> in_some_class a b \/ plain_eq pl a b = true.
  Proof.
    unfold ceq, in_some_class. rewrite <- class_eq_true_iff.
    destruct (class_eq_cases cls a b) as [E|E]; rewrite E.
    - tauto.
    - split; [auto|]. intros [H|H]; [discriminate|exact H].
  Qed.

  Lemma in_some_class_sym a b : in_some_class a b -> in_some_class b a.
  Proof. intros (cl & H1 & H2 & H3). exists cl. auto. Qed.

  Lemma plain_eq_sym a b : plain_eq pl a b = plain_eq pl b a.
  Proof.
    rewrite !plain_eq_alt.
    destruct (variant_eqb (cvar a) (cvar b)) eqn:E.
    - apply variant_eqb_eq in E. rewrite <- E, variant_eqb_refl, (N.eqb_sym (cparam b)). reflexivity.
    - destruct (variant_eqb (cvar b) (cvar a)) eqn:E'; [|reflexivity].
      apply variant_eqb_eq in E'. rewrite E', variant_eqb_refl in E. discriminate.
  Qed.

  Lemma ceq_sym a b : ceq a b = ceq b a.
  Proof.
    apply eq_true_iff_eq. rewrite !ceq_true_iff, plain_eq_sym.
    split; (intros [H|H]; [left; apply in_some_class_sym; exact H|right; exact H]).
  Qed.

  (* table conditions, decidable *)
  (* reflexivity: every variant is compared by the per-variant arm, or is parameterless and
     its only value is a class member *)
  Definition refl_ok : bool :=
    forallb (fun v => match find_plain pl v with
                      | Some _ => true
                      | None => negb (has_param v) &&
                                existsb (fun cl => in_class cl {| cvar := v; cparam := 0 |}) cls
                      end) all_variants.
  (* transitivity: two overlapping classes: the first is included in the second; and no class
     member belongs to a variant whose per-variant arm ignores the parameter *)
  Definition classes_ok : bool :=
    forallb (fun cl1 => forallb (fun cl2 =>
      if existsb (in_class cl2) cl1 then forallb (in_class cl2) cl1 else true) cls) cls.
  Definition members_ok : bool :=
    forallb (fun cl => forallb (fun m => match find_plain pl (cvar m) with
                                         | Some false => false | _ => true end) cl) cls.

  Lemma in_class_In cl a : in_class cl a = true <-> In a cl.
  Proof.
    unfold in_class. rewrite existsb_exists. split.
    - intros (m & Hm & E). apply code_eqb_eq in E. subst. exact Hm.
    - intros H. exists a. split; [exact H|]. apply code_eqb_eq. reflexivity.
  Qed.

  Lemma ceq_refl a : refl_ok = true -> wf_code a -> ceq a a = true.
  Proof.
    intros Hr Hwf. apply ceq_true_iff. unfold refl_ok in Hr. rewrite forallb_forall in Hr.
    specialize (Hr (cvar a) (all_variants_complete _)).
    destruct (find_plain pl (cvar a)) as [cmp|] eqn:E.
    - right. rewrite plain_eq_alt, variant_eqb_refl, E, N.eqb_refl. destruct cmp; reflexivity.
    - left. apply andb_true_iff in Hr. destruct Hr as [Hp Hex]. apply negb_true_iff in Hp.
      apply existsb_exists in Hex. destruct Hex as (cl & Hcl & Hin).
      assert (Ea : a = {| cvar := cvar a; cparam := 0 |})
        by (destruct a as [v p]; unfold wf_code in Hwf; cbn [cvar cparam] in *;
            rewrite (Hwf Hp); reflexivity).
      rewrite <- Ea in Hin. exists cl. auto.
  Qed.

  Lemma class_plain_step a b c :
    members_ok = true -> in_some_class a b -> plain_eq pl b c = true -> in_some_class a c.
  Proof.
    intros Hm (cl & Hcl & Ha & Hb) Hp. rewrite plain_eq_alt in Hp.
    apply andb_true_iff in Hp. destruct Hp as [Hv Hp]. apply variant_eqb_eq in Hv.
    unfold members_ok in Hm. rewrite forallb_forall in Hm. specialize (Hm cl Hcl).
    rewrite forallb_forall in Hm. specialize (Hm b (proj1 (in_class_In cl b) Hb)).
    destruct (find_plain pl (cvar b)) as [[|]|]; try discriminate.
    apply N.eqb_eq in Hp. assert (b = c) by (destruct b as [vb pb], c as [vc pc]; cbn [cvar cparam] in *; congruence).
    subst c. exists cl. auto.
  Qed.

  Lemma ceq_trans a b c :
    classes_ok = true -> members_ok = true ->
    ceq a b = true -> ceq b c = true -> ceq a c = true.
  Proof.
    intros Hc Hm Hab Hbc. apply ceq_true_iff in Hab. apply ceq_true_iff in Hbc. apply ceq_true_iff.
    destruct Hab as [Hab|Hab], Hbc as [Hbc|Hbc].
    - left. destruct Hab as (cl1 & Hcl1 & Ha & Hb1), Hbc as (cl2 & Hcl2 & Hb2 & Hc2).
      unfold classes_ok in Hc. rewrite forallb_forall in Hc. specialize (Hc cl1 Hcl1).
      rewrite forallb_forall in Hc. specialize (Hc cl2 Hcl2).
      assert (E : existsb (in_class cl2) cl1 = true).
      { apply existsb_exists. exists b. split; [apply in_class_In; exact Hb1|exact Hb2]. }
      rewrite E in Hc. rewrite forallb_forall in Hc.
      exists cl2. split; [exact Hcl2|]. split; [|exact Hc2].
      apply Hc, in_class_In, Ha.
    - left. eapply class_plain_step; eauto.
    - left. apply in_some_class_sym. rewrite plain_eq_sym in Hab.
      eapply class_plain_step; eauto using in_some_class_sym.
    - right. rewrite plain_eq_alt in *.
      apply andb_true_iff in Hab. destruct Hab as [Hv1 Hp1]. apply variant_eqb_eq in Hv1.
      apply andb_true_iff in Hbc. destruct Hbc as [Hv2 Hp2]. apply variant_eqb_eq in Hv2.
      rewrite <- Hv1 in Hp2. rewrite Hv1, Hv2, variant_eqb_refl. rewrite <- Hv2, <- Hv1.
      destruct (find_plain pl (cvar a)) as [[|]|]; try discriminate; [|reflexivity].
      apply N.eqb_eq in Hp1. apply N.eqb_eq in Hp2. apply N.eqb_eq. congruence.
  Qed.
End Eq.

Lemma codes_eq_ceq a b : codes_eq a b = ceq eq_classes eq_plain a b.
Proof. reflexivity. Qed.

Lemma eq_tables_ok :
  refl_ok eq_classes eq_plain = true /\ classes_ok eq_classes = true /\
  members_ok eq_classes eq_plain = true.
Proof. vm_compute. auto. Qed.

Theorem codes_eq_refl a : wf_code a -> codes_eq a a = true.
Proof. rewrite codes_eq_ceq. apply ceq_refl, eq_tables_ok. Qed.

Theorem codes_eq_sym a b : codes_eq a b = codes_eq b a.
Proof. rewrite !codes_eq_ceq. apply ceq_sym. Qed.

Theorem codes_eq_trans a b c : codes_eq a b = true -> codes_eq b c = true -> codes_eq a c = true.
Proof. rewrite !codes_eq_ceq. apply ceq_trans; apply eq_tables_ok. Qed.

Theorem codes_eq_equiv :
  (forall a, wf_code a -> codes_eq a a = true) /\
  (forall a b, codes_eq a b = true -> codes_eq b a = true) /\
  (forall a b c, codes_eq a b = true -> codes_eq b c = true -> codes_eq a c = true).
Proof.
  split; [exact codes_eq_refl|]. split; [|exact codes_eq_trans].
  intros a b H. rewrite codes_eq_sym. exact H.
Qed.

(* reflexivity needs wf_code: the PartialEq arms have no Unary/Gamma per-variant case *)
Example codes_eq_refl_needs_wf :
  codes_eq {| cvar := VUnary; cparam := 5 |} {| cvar := VUnary; cparam := 5 |} = false.
Proof. vm_compute. reflexivity. Qed.
Example ex_codes_eq_trans_hyps :
  codes_eq {| cvar := VUnary; cparam := 0 |} {| cvar := VRice; cparam := 0 |} = true /\
  codes_eq {| cvar := VRice; cparam := 0 |} {| cvar := VGolomb; cparam := 1 |} = true /\
  codes_eq {| cvar := VZeta; cparam := 7 |} {| cvar := VZeta; cparam := 7 |} = true /\
  codes_eq {| cvar := VZeta; cparam := 7 |} {| cvar := VZeta; cparam := 8 |} = false.
Proof. vm_compute. auto. Qed.
