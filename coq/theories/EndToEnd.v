(* EndToEnd.v — capstone: any sequence of codes written through a buffered writer of ANY word
   width Ww, flushed, delivered as bytes, re-read as words of ANY reader word width Wr by the
   buffered reader (and as 64-bit words by the unbuffered reader) decodes to exactly the values
   written, the reader's reported position after item k being the sum of the lengths of the
   codewords of items 1..k.  Both endiannesses, any table flags on either side (they may differ
   between the write and the read), any default-parameter records Dw / Dr, argument checks on or
   off on the writer side.
   Composition of CodesSummary (L1), WriterProofs / ReaderProofs / UReaderProofs (L2) through
   MachineTheorems, plus the byte -> word re-chunking lemma proved here. *)
From DSI Require Import Base Words Prog Codes CodeDefs Writer Reader Abs BitFacts CodesProofs
  Run CodesSummary BitsLemmas WriterProofs BitsLemmasR ReaderProofs BitsLemmasU UReaderProofs
  IoViewsProofs MachineTheorems.
From DSI.Gen Require Import GenTables GenParams.
From Coq Require Import ZifyBool ZifyNat ZifyN.
Ltac Zify.zify_post_hook ::= Z.div_mod_to_equations.
Arguments N.add : simpl never. Arguments N.sub : simpl never. Arguments N.mul : simpl never.
Arguments N.div : simpl never. Arguments N.modulo : simpl never. Arguments N.pow : simpl never.
Arguments N.eqb : simpl never. Arguments N.ltb : simpl never. Arguments N.leb : simpl never.
Arguments N.testbit : simpl never. Arguments N.of_nat : simpl never. Arguments N.to_nat : simpl never.
Open Scope N_scope.

(* ------------------------------------------------------------------ items and their stream *)
(* one written / read value: code number and parameter (as in Run.sel_write), the table flags used
   by the writer and those used by the reader, the value *)
Record item := { it_id : N; it_p : N; it_flw : N; it_flr : N; it_v : N }.
Definition item_valid (it : item) : Prop := valid (it_id it) (it_p it) (it_v it).
Definition item_cw (E : endian) (it : item) : bits := code_cw E (it_id it) (it_p it) (it_v it).
Definition stream (E : endian) (items : list item) : bits := flat_map (item_cw E) items.

(* what a reader must report: each value with the stream position just after its codeword *)
Fixpoint decoded (E : endian) (pos : N) (items : list item) : list (N * N) :=
  match items with
  | [] => []
  | it :: r => let pos' := pos + LEN (item_cw E it) in (it_v it, pos') :: decoded E pos' r
  end.

Lemma stream_cons E it r : stream E (it :: r) = item_cw E it ++ stream E r.
Proof. reflexivity. Qed.
Lemma stream_app E a b : stream E (a ++ b) = stream E a ++ stream E b.
Proof. unfold stream. apply flat_map_app. Qed.
Lemma LEN_app' a b : LEN (a ++ b) = LEN a + LEN b.
Proof. unfold LEN. rewrite app_length. lia. Qed.
Lemma map_fst_decoded E items : forall pos, map fst (decoded E pos items) = map it_v items.
Proof. induction items as [| it r IH]; intros pos; cbn [decoded map fst]; [reflexivity | rewrite IH; reflexivity]. Qed.
(* the k-th report is the k-th value and the length of the codewords of items 1..k *)
Lemma decoded_positions E items : forall pos k it,
  nth_error items k = Some it ->
  nth_error (decoded E pos items) k = Some (it_v it, pos + LEN (stream E (firstn (S k) items))).
Proof.
  induction items as [| a r IH]; intros pos k it Hk; [destruct k; discriminate |].
  destruct k as [| k].
  - injection Hk as ->. cbn [decoded nth_error firstn]. rewrite stream_cons. cbn [stream flat_map]. rewrite app_nil_r. reflexivity.
  - cbn [nth_error] in Hk. cbn [decoded nth_error]. rewrite (IH _ k it Hk).
    change (firstn (S (S k)) (a :: r)) with (a :: firstn (S k) r). rewrite stream_cons, LEN_app'.
    rewrite N.add_assoc. reflexivity.
Qed.

(* the driver loops: write every item / read every item, with the machines' own primitives *)
Fixpoint write_items (E : endian) (W : N) (D : params) (checks : bool) (items : list item) (s : bwriter)
  : outcome (N * bwriter) :=
  match items with
  | [] => Ok (0, s)
  | it :: r =>
      obind (wrun (bwprims E W checks) (sel_write E D checks (it_id it) (it_p it) (it_flw it) (it_v it)) s)
        (fun '(n, s1) => obind (write_items E W D checks r s1) (fun '(m, s2) => Ok (n + m, s2)))
  end.

(* after each item the reader is asked for its bit position (br_bit_pos: word_pos * W - bits_in_buffer) *)
Fixpoint read_items (E : endian) (W : N) (D : params) (items : list item) (s : breader)
  : outcome (list (N * N) * breader) :=
  match items with
  | [] => Ok ([], s)
  | it :: r =>
      obind (rrun (brprims E W) (sel_read E D (it_id it) (it_p it) (it_flr it)) s) (fun '(v, s1) =>
      obind (br_bit_pos W s1) (fun pos =>
      obind (read_items E W D r s1) (fun '(l, s2) => Ok ((v, pos) :: l, s2))))
  end.

(* the unbuffered reader's position is its bit index *)
Fixpoint read_items_u (E : endian) (D : params) (items : list item) (s : ureader)
  : outcome (list (N * N) * ureader) :=
  match items with
  | [] => Ok ([], s)
  | it :: r =>
      obind (rrun (urprims E) (sel_read E D (it_id it) (it_p it) (it_flr it)) s) (fun '(v, s1) =>
      obind (read_items_u E D r s1) (fun '(l, s2) => Ok ((v, ur_index s1) :: l, s2)))
  end.

(* the byte stream a reader backend of W-bit words turns into words (from_be/le_bytes of each group
   of W/8 bytes, a trailing partial group zero padded), as Run.init_world does *)
Definition words_of (E : endian) (W : N) (bs : list N) : list N :=
  words_of_bytes E (N.to_nat (W / 8)) (S (length bs)) bs.
(* number of zero bytes that completes a byte list to a multiple of nb bytes *)
Definition pad_bytes (nb : nat) (len : nat) : nat := ((nb - len mod nb) mod nb)%nat.
(* number of zero bits bw_flush adds after L bits with W-bit words *)
Definition flush_pad (W L : N) : N := if L mod W =? 0 then 0 else W - L mod W.

Lemma maxcap_val : maxcap = 12.
Proof. vm_compute. reflexivity. Qed.

(* ------------------------------------------------------------------ bytes -> words *)
Lemma ws_bytes W : wordsize_ok W -> (8 * N.to_nat (W / 8) = N.to_nat W)%nat /\ (0 < N.to_nat (W / 8))%nat.
Proof. intros [H8 Hm]. lia. Qed.

Lemma bob_repeat0 E k : bits_of_bytes E (repeat 0 k) = zeros (8 * k).
Proof.
  induction k as [| k IH]; [reflexivity |].
  cbn [repeat]. rewrite bob_cons, IH, field_0.
  replace (8 * S k)%nat with (8 + 8 * k)%nat by lia. symmetry. apply zeros_app.
Qed.

Lemma chunk_bits E W chunk : wordsize_ok W -> Forall lt256 chunk -> length chunk = N.to_nat (W / 8) ->
  bits_of_word E W (word_of_bytes E chunk) = bits_of_bytes E chunk /\ word_of_bytes E chunk < 2 ^ W.
Proof.
  intros HW HF Hl. destruct (ws_bytes W HW) as [H8 _]. split.
  - unfold bits_of_word. replace (N.to_nat W) with (8 * length chunk)%nat by lia.
    apply field_word_of_bytes. exact HF.
  - pose proof (word_of_bytes_bound E chunk HF) as Hb.
    replace (8 * N.of_nat (length chunk)) with W in Hb by lia. exact Hb.
Qed.

Lemma wob_nil E nb f : words_of_bytes E nb f [] = [].
Proof. destruct f; reflexivity. Qed.
Lemma wob_cons E nb f b r :
  words_of_bytes E nb (S f) (b :: r) =
  word_of_bytes E (firstn nb (b :: r) ++ repeat 0 (nb - length (firstn nb (b :: r))))
  :: words_of_bytes E nb f (skipn nb (b :: r)).
Proof. reflexivity. Qed.

Lemma pad_bytes_lt nb len : (0 < nb)%nat -> (pad_bytes nb len < nb)%nat.
Proof. intros H. unfold pad_bytes. apply Nat.mod_upper_bound. lia. Qed.
Lemma pad_bytes_0 nb len : (0 < nb)%nat -> (len mod nb = 0)%nat -> pad_bytes nb len = 0%nat.
Proof. intros H H0. unfold pad_bytes. rewrite H0, Nat.sub_0_r. apply Nat.mod_same. lia. Qed.

Lemma words_of_bytes_bits E W : wordsize_ok W ->
  forall fuel bs, Forall lt256 bs -> (length bs <= fuel)%nat ->
  bits_of_words E W (words_of_bytes E (N.to_nat (W / 8)) fuel bs)
    = bits_of_bytes E bs ++ zeros (8 * pad_bytes (N.to_nat (W / 8)) (length bs)) /\
  Forall (fun w => w < 2 ^ W) (words_of_bytes E (N.to_nat (W / 8)) fuel bs).
Proof.
  intros HW. destruct (ws_bytes W HW) as [H8 Hnb]. set (nb := N.to_nat (W / 8)) in *.
  assert (Hnil : forall f, bits_of_words E W (words_of_bytes E nb f [])
                   = bits_of_bytes E [] ++ zeros (8 * pad_bytes nb (length (@nil N))) /\
                   Forall (fun w => w < 2 ^ W) (words_of_bytes E nb f [])).
  { intros f. rewrite wob_nil. cbn [length]. rewrite pad_bytes_0; [split; [reflexivity | constructor] | lia |].
    apply Nat.mod_0_l. lia. }
  induction fuel as [| f IH]; intros bs HF Hlen.
  - destruct bs as [| b r]; [apply Hnil | cbn [length] in Hlen; lia].
  - destruct bs as [| b r]; [apply Hnil |].
    rewrite wob_cons. set (bs := b :: r) in *.
    assert (Hbs : (0 < length bs)%nat) by (unfold bs; cbn [length]; lia).
    set (chunk := firstn nb bs ++ repeat 0 (nb - length (firstn nb bs))).
    assert (HFc : Forall lt256 chunk).
    { unfold chunk. apply Forall_app. split; [apply Forall_firstn_; exact HF |].
      apply Forall_forall. intros x Hx. apply repeat_spec in Hx. subst x. unfold lt256. lia. }
    assert (Hlc : length chunk = nb).
    { unfold chunk. rewrite app_length, repeat_length, firstn_length. lia. }
    destruct (chunk_bits E W chunk HW HFc Hlc) as [Hcb Hcl].
    assert (Hsk : (length (skipn nb bs) <= f)%nat) by (rewrite skipn_length; lia).
    destruct (IH (skipn nb bs) (Forall_skipn_ _ _ _ HF) Hsk) as [IHb IHf].
    split; [| constructor; assumption].
    rewrite bits_of_words_cons. fold (bits_of_word E W (word_of_bytes E chunk)). rewrite Hcb, IHb.
    destruct (Nat.le_gt_cases nb (length bs)) as [Hge | Hlt].
    + assert (Hch : chunk = firstn nb bs).
      { unfold chunk. rewrite firstn_length_le by exact Hge. rewrite Nat.sub_diag. apply app_nil_r. }
      rewrite Hch, app_assoc, <- bob_split. f_equal. f_equal. f_equal.
      rewrite skipn_length. unfold pad_bytes. f_equal. f_equal.
      replace (length bs) with ((length bs - nb) + 1 * nb)%nat at 2 by lia.
      rewrite Nat.mod_add by lia. reflexivity.
    + assert (Hch : chunk = bs ++ repeat 0 (nb - length bs)).
      { unfold chunk. rewrite firstn_all2 by lia. reflexivity. }
      rewrite Hch, skipn_all2 by lia. cbn [bits_of_bytes flat_map length].
      rewrite bob_app, bob_repeat0. rewrite <- app_assoc. f_equal.
      unfold pad_bytes. rewrite (Nat.mod_small (length bs)) by lia.
      rewrite (Nat.mod_small (nb - length bs)) by lia.
      rewrite Nat.mod_0_l by lia. rewrite Nat.sub_0_r, Nat.mod_same by lia.
      rewrite Nat.mul_0_r. cbn [zeros repeat app]. apply app_nil_r.
Qed.

(* C03e_reader_words: the words a reader backend of ANY word width makes of a byte stream carry
   exactly the bits of the bytes, followed by the zero bits of the bytes that complete the last word *)
Theorem reader_words E W bs : wordsize_ok W -> Forall (fun b => b < 256) bs ->
  bits_of_words E W (words_of E W bs)
    = bits_of_bytes E bs ++ zeros (8 * pad_bytes (N.to_nat (W / 8)) (length bs)) /\
  (pad_bytes (N.to_nat (W / 8)) (length bs) < N.to_nat (W / 8))%nat /\
  ((length bs mod N.to_nat (W / 8) = 0)%nat -> bits_of_words E W (words_of E W bs) = bits_of_bytes E bs) /\
  Forall (fun w => w < 2 ^ W) (words_of E W bs) /\
  W * N.of_nat (length (words_of E W bs)) = 8 * N.of_nat (length bs + pad_bytes (N.to_nat (W / 8)) (length bs)).
Proof.
  intros HW HF. destruct (ws_bytes W HW) as [H8 Hnb].
  destruct (words_of_bytes_bits E W HW (S (length bs)) bs HF ltac:(lia)) as [Hb Hf].
  fold (words_of E W bs) in Hb, Hf.
  split; [exact Hb |]. split; [apply pad_bytes_lt; exact Hnb |]. split; [| split; [exact Hf |]].
  - intros H0. rewrite Hb, pad_bytes_0 by assumption. apply app_nil_r.
  - pose proof (f_equal (@length bool) Hb) as Hl.
    rewrite bits_of_words_length, app_length, bob_length, length_zeros in Hl. lia.
Qed.

(* ------------------------------------------------------------------ writer: an unbounded sink never errs *)
Lemma write_bits_unbounded E W checks v n s :
  WInv W s -> wk_cap (bw_sink s) = None ->
  match bw_write_bits E W checks v n s with
  | Ok (_, s') => WInv W s' /\ wk_cap (bw_sink s') = None
  | Err => False
  | _ => True
  end.
Proof.
  intros HI Hc. destruct (N.ltb_spec 64 n) as [Hn | Hn].
  - unfold bw_write_bits. destruct (N.ltb_spec 64 n); [exact I | lia].
  - assert (Hf : match bw_write_bits E W false v n s with
                 | Ok (_, s') => WInv W s' /\ wk_cap (bw_sink s') = None
                 | Err => False | _ => True end).
    { destruct (wstep_unbounded _ _ _ _ _ _ (write_bits_step E W v n s HI Hn) Hc) as (s' & -> & HI' & _ & Hc').
      split; assumption. }
    destruct checks; [| exact Hf].
    destruct (WriterProofs.C19_assert_iff E W v n s HI Hn) as (Hfail & Heq & _).
    destruct (N.eq_dec (N.land v (mask_u128 n)) v) as [Hclean | Hdirty].
    + rewrite (Heq Hclean). exact Hf.
    + apply Hfail in Hdirty. rewrite Hdirty. exact I.
Qed.

Lemma write_unary_unbounded E W x s :
  WInv W s -> wk_cap (bw_sink s) = None ->
  match bw_write_unary E W x s with
  | Ok (_, s') => WInv W s' /\ wk_cap (bw_sink s') = None
  | Err => False
  | _ => True
  end.
Proof.
  intros HI Hc. destruct (N.eq_dec x U64MAX) as [Hx | Hx].
  - unfold bw_write_unary. destruct (N.eqb_spec x U64MAX); [exact I | contradiction].
  - destruct (wstep_unbounded _ _ _ _ _ _ (write_unary_step E W x s HI Hx) Hc) as (s' & -> & HI' & _ & Hc').
    split; assumption.
Qed.

Lemma wrun_unbounded {A} E W checks (p : wprog A) : forall s,
  WInv W s -> wk_cap (bw_sink s) = None ->
  match wrun (bwprims E W checks) p s with
  | Ok (_, s') => WInv W s' /\ wk_cap (bw_sink s') = None
  | Err => False
  | _ => True
  end.
Proof.
  induction p as [a | v n k IH | x k IH |]; intros s HI Hc; cbn [wrun bwprims q_bits q_unary].
  - split; assumption.
  - pose proof (write_bits_unbounded E W checks v n s HI Hc) as H.
    destruct (bw_write_bits E W checks v n s) as [[r s'] | | |]; try exact I; [| contradiction].
    destruct H as [HI' Hc']. apply IH; assumption.
  - pose proof (write_unary_unbounded E W x s HI Hc) as H.
    destruct (bw_write_unary E W x s) as [[r s'] | | |]; try exact I; [| contradiction].
    destruct H as [HI' Hc']. apply IH; assumption.
  - exact I.
Qed.

(* one code, either build, unbounded sink: Ok *)
Lemma code_write_unbounded E W D checks id p fl v b s :
  wrel E W b s -> wk_cap (bw_sink s) = None -> valid id p v ->
  exists s', wrun (bwprims E W checks) (sel_write E D checks id p fl v) s = Ok (LEN (code_cw E id p v), s') /\
             WInv W s' /\ wabs E W s' = b ++ code_cw E id p v /\ wk_cap (bw_sink s') = None.
Proof.
  intros HR Hc Hv. pose proof HR as [HI _].
  pose proof (wrun_unbounded E W checks (sel_write E D checks id p fl v) s HI Hc) as Hu.
  assert (Hm : (exists s', wrun (bwprims E W checks) (sel_write E D checks id p fl v) s = Ok (LEN (code_cw E id p v), s') /\
                           WInv W s' /\ wabs E W s' = b ++ code_cw E id p v)
               \/ wrun (bwprims E W checks) (sel_write E D checks id p fl v) s = Err).
  { destruct checks; [apply code_write_machine_checks | apply code_write_machine]; assumption. }
  destruct Hm as [(s' & Hs' & HI' & HA') | He].
  - rewrite Hs' in Hu. exists s'. destruct Hu as [_ Hc']. auto.
  - rewrite He in Hu. contradiction.
Qed.

Lemma write_items_from E W D checks items : forall b s,
  wrel E W b s -> wk_cap (bw_sink s) = None -> Forall item_valid items ->
  exists s', write_items E W D checks items s = Ok (LEN (stream E items), s') /\
             WInv W s' /\ wabs E W s' = b ++ stream E items /\ wk_cap (bw_sink s') = None.
Proof.
  induction items as [| it r IH]; intros b s HR Hc Hv.
  - exists s. destruct HR as [HI HA]. cbn [write_items stream flat_map]. rewrite app_nil_r. auto.
  - inversion Hv as [| ? ? Hit Hr]; subst.
    destruct (code_write_unbounded E W D checks (it_id it) (it_p it) (it_flw it) (it_v it) b s HR Hc Hit)
      as (s1 & Hs1 & HI1 & HA1 & Hc1).
    destruct (IH (b ++ item_cw E it) s1 (conj HI1 HA1) Hc1 Hr) as (s2 & Hs2 & HI2 & HA2 & Hc2).
    exists s2. cbn [write_items]. rewrite Hs1. cbn [obind]. rewrite Hs2. cbn [obind].
    rewrite stream_cons, LEN_app'. fold (item_cw E it). split; [reflexivity |].
    rewrite HA2, <- app_assoc. auto.
Qed.

(* C03e_write_items: a fresh writer of ANY word width over an unbounded sink, either build, any
   default-parameter record, any table flags: every item is written, the total reported is the
   length of the stream, and the writer stands for exactly the concatenated codewords *)
Theorem write_items_ok E Ww Dw checks items :
  wordsize_ok Ww -> Forall item_valid items ->
  exists s1, write_items E Ww Dw checks items (bw_new None Ww) = Ok (LEN (stream E items), s1) /\
             WInv Ww s1 /\ wabs E Ww s1 = stream E items /\ wk_cap (bw_sink s1) = None.
Proof.
  intros HW Hv.
  assert (HR : wrel E Ww [] (bw_new None Ww)) by (split; [apply WInv_new; exact HW | apply wabs_new]).
  destruct (write_items_from E Ww Dw checks items [] (bw_new None Ww) HR eq_refl Hv) as (s1 & H1 & H2 & H3 & H4).
  exists s1. auto.
Qed.

(* ------------------------------------------------------------------ flush and the delivered bytes *)
Lemma flush_pad_lt W L : 0 < W -> flush_pad W L < W.
Proof. intros HW. unfold flush_pad. destruct (L mod W =? 0) eqn:H0; lia. Qed.
Lemma flush_pad_mod W L : 0 < W -> (L + flush_pad W L) mod W = 0.
Proof.
  intros HW. unfold flush_pad. destruct (L mod W =? 0) eqn:H0.
  - rewrite N.add_0_r. lia.
  - pose proof (N.mod_upper_bound L W ltac:(lia)) as Hu.
    rewrite (N.div_mod L W) at 1 by lia.
    set (q := L / W) in *. set (m := L mod W) in *. clearbody q m. clear H0.
    replace (W * q + m + (W - m)) with ((q + 1) * W) by (rewrite N.add_sub_assoc by lia; lia).
    apply N.mod_mul. lia.
Qed.

(* C03e_flushed_bytes: after the flush the delivered bytes carry exactly the written bits followed
   by the flush padding (fewer than Ww zero bits), all bytes are < 256, their number is a whole
   number of writer words, and they are the canonical image of the written bits followed by zero
   bytes only *)
Theorem flushed_bytes E Ww b s1 :
  wrel E Ww b s1 -> wk_cap (bw_sink s1) = None ->
  exists s2, bw_flush E Ww s1 = Ok (LEN b mod Ww, s2) /\ WInv Ww s2 /\ bw_space s2 = Ww /\
    bits_of_bytes E (bw_bytes E Ww s2) = b ++ zeros (N.to_nat (flush_pad Ww (LEN b))) /\
    flush_pad Ww (LEN b) < Ww /\
    Forall (fun x => x < 256) (bw_bytes E Ww s2) /\
    8 * N.of_nat (length (bw_bytes E Ww s2)) = LEN b + flush_pad Ww (LEN b) /\
    exists k, bw_bytes E Ww s2 = image E b ++ repeat 0 k.
Proof.
  intros HR Hc. pose proof HR as [HI HA]. pose proof HI as ([HW8 HWm] & _).
  pose proof (WriterProofs.C01_flush E Ww b s1 HR) as Hf.
  destruct (bw_flush E Ww s1) as [[r s2] | | |]; try contradiction.
  destruct Hf as (_ & Hr & HI2 & Hsp & HA2).
  assert (Hbits : bits_of_bytes E (bw_bytes E Ww s2) = b ++ zeros (N.to_nat (flush_pad Ww (LEN b)))).
  { rewrite (WriterProofs.C01_bytes_abs E Ww s2 HI2).
    unfold wabs in HA2. rewrite pending_pend, Hsp, pend_full, app_nil_r in HA2.
    rewrite HA2. unfold flush_pad. fold (LEN b) in Hr. rewrite <- Hr. reflexivity. }
  exists s2. fold (LEN b) in Hr. subst r.
  split; [reflexivity |]. split; [exact HI2 |]. split; [exact Hsp |]. split; [exact Hbits |].
  split; [apply flush_pad_lt; lia |]. split; [apply bw_bytes_lt |]. split.
  - pose proof (f_equal (@length bool) Hbits) as Hl.
    rewrite bob_length, app_length, length_zeros in Hl.
    set (fp := flush_pad Ww (LEN b)) in *. clearbody fp. unfold LEN. lia.
  - destruct (image_app_zeros E b (N.to_nat (flush_pad Ww (LEN b)))) as [k Hk].
    exists k. rewrite <- Hk, <- Hbits. symmetry. apply image_bits_of_bytes. apply bw_bytes_lt.
Qed.

(* ------------------------------------------------------------------ readers: a sequence of codes *)
Lemma skipn_next (pos : N) (cw rest l : bits) :
  skipn (N.to_nat pos) l = cw ++ rest -> skipn (N.to_nat (pos + LEN cw)) l = rest.
Proof.
  intros H. replace (N.to_nat (pos + LEN cw)) with (N.to_nat pos + length cw)%nat by (unfold LEN; lia).
  rewrite <- BitsLemmasR.skipn_skipn_add, H. apply skipn_app_exact. reflexivity.
Qed.

(* a buffered reader of ANY word width W >= the tables' look-ahead, positioned at the start of the
   codewords of `items` followed by anything: every value is decoded, every reported position is
   the end of the corresponding codeword *)
Lemma read_items_from E W D items : forall s pos post,
  RInv E W s pos -> W * N.of_nat (length (ws_words (br_src s))) <= 2 ^ 64 -> maxcap <= W ->
  Forall item_valid items ->
  skipn (N.to_nat pos) (src_bits E W (br_src s)) = stream E items ++ post ->
  pos + LEN (stream E items) + 2 * W <= 2 ^ 64 ->
  exists s', read_items E W D items s = Ok (decoded E pos items, s') /\
             RInv E W s' (pos + LEN (stream E items)) /\
             ws_words (br_src s') = ws_words (br_src s) /\ ws_strict (br_src s') = ws_strict (br_src s).
Proof.
  induction items as [| it r IH]; intros s pos post HI Hlen Hcap Hv Hstream Hb.
  - exists s. cbn [read_items decoded stream flat_map]. unfold LEN. cbn [length].
    replace (pos + N.of_nat 0) with pos by lia. auto.
  - inversion Hv as [| ? ? Hit Hr]; subst.
    rewrite stream_cons, <- app_assoc in Hstream. rewrite stream_cons, LEN_app' in Hb.
    destruct (code_read_machine E W D (it_id it) (it_p it) (it_flr it) (it_v it) s pos (stream E r ++ post)
                HI Hlen Hcap Hit Hstream) as (s1 & Hs1 & HI1 & Hw1 & Hst1).
    fold (item_cw E it) in HI1.
    assert (Hpos1 : br_bit_pos W s1 = Ok (pos + LEN (item_cw E it))).
    { apply (ReaderProofs.bit_pos_ok E W s1 _ HI1).
      destruct HI1 as (_ & _ & Hbits & Hidx & _). lia. }
    assert (Hsrc : src_bits E W (br_src s1) = src_bits E W (br_src s)) by (unfold src_bits; rewrite Hw1; reflexivity).
    destruct (IH s1 (pos + LEN (item_cw E it)) post HI1) as (s2 & Hs2 & HI2 & Hw2 & Hst2).
    + rewrite Hw1. exact Hlen.
    + exact Hcap.
    + exact Hr.
    + rewrite Hsrc. apply skipn_next. exact Hstream.
    + lia.
    + exists s2. cbn [read_items]. rewrite Hs1. cbn [obind]. rewrite Hpos1. cbn [obind]. rewrite Hs2. cbn [obind].
      cbn [decoded]. split; [reflexivity |].
      rewrite stream_cons, LEN_app', N.add_assoc. split; [exact HI2 |]. split; congruence.
Qed.

(* the same for the unbuffered reader over u64 words *)
Lemma read_items_u_from E D items : forall s post,
  UInv s -> Forall item_valid items ->
  ur_index s + LEN (stream E items) < 2 ^ 63 ->
  skipn (N.to_nat (ur_index s)) (src_bits E 64 (ur_src s)) = stream E items ++ post ->
  exists s', read_items_u E D items s = Ok (decoded E (ur_index s) items, s') /\
             UInv s' /\ ur_index s' = ur_index s + LEN (stream E items) /\
             ws_words (ur_src s') = ws_words (ur_src s).
Proof.
  assert (Hcap : maxcap <= 32) by (rewrite maxcap_val; lia).
  induction items as [| it r IH]; intros s post HI Hv Hb Hstream.
  - exists s. cbn [read_items_u decoded stream flat_map]. unfold LEN. cbn [length].
    split; [reflexivity |]. split; [exact HI |]. split; [lia | reflexivity].
  - inversion Hv as [| ? ? Hit Hr]; subst.
    rewrite stream_cons, <- app_assoc in Hstream. rewrite stream_cons, LEN_app' in Hb.
    destruct (code_read_umachine E D (it_id it) (it_p it) (it_flr it) (it_v it) s (stream E r ++ post)
                HI Hcap Hit) as (s1 & Hs1 & HI1 & Hidx1 & Hw1).
    { fold (item_cw E it). lia. }
    { exact Hstream. }
    fold (item_cw E it) in Hidx1.
    assert (Hsrc : src_bits E 64 (ur_src s1) = src_bits E 64 (ur_src s)) by (unfold src_bits; rewrite Hw1; reflexivity).
    destruct (IH s1 post HI1 Hr) as (s2 & Hs2 & HI2 & Hidx2 & Hw2).
    + rewrite Hidx1. lia.
    + rewrite Hsrc, Hidx1. apply skipn_next. exact Hstream.
    + exists s2. cbn [read_items_u]. rewrite Hs1. cbn [obind]. rewrite Hs2. cbn [obind].
      cbn [decoded]. rewrite Hidx1. split; [reflexivity |]. split; [exact HI2 |].
      rewrite stream_cons, LEN_app', N.add_assoc. split; congruence.
Qed.

(* ------------------------------------------------------------------ end to end *)
Lemma wordsize_ok_64 : wordsize_ok 64.
Proof. split; [lia | reflexivity]. Qed.

(* the source a reader of W-bit words is given when handed the flushed bytes: the written stream,
   then zeros only; in total fewer than |stream| + Ww + W bits *)
Lemma delivered_source E Ww W b s2 :
  wordsize_ok Ww -> wordsize_ok W ->
  bits_of_bytes E (bw_bytes E Ww s2) = b ++ zeros (N.to_nat (flush_pad Ww (LEN b))) ->
  flush_pad Ww (LEN b) < Ww ->
  let ws := words_of E W (bw_bytes E Ww s2) in
  (exists z, bits_of_words E W ws = b ++ zeros z) /\
  Forall (fun w => w < 2 ^ W) ws /\
  W * N.of_nat (length ws) < LEN b + Ww + W.
Proof.
  intros HWw HW Hbits Hfp ws.
  destruct (reader_words E W (bw_bytes E Ww s2) HW (bw_bytes_lt E Ww s2)) as (Hb & Hp & _ & Hf & Hl).
  fold ws in Hb, Hf, Hl. destruct (ws_bytes W HW) as [H8 Hnb].
  split; [| split; [exact Hf |]].
  - eexists. rewrite Hb, Hbits, <- app_assoc. unfold zeros. rewrite <- repeat_app. reflexivity.
  - pose proof (f_equal (@length bool) Hbits) as Hlb.
    rewrite bob_length, app_length, length_zeros in Hlb.
    set (fp := flush_pad Ww (LEN b)) in *. set (pb := pad_bytes (N.to_nat (W / 8)) (length (bw_bytes E Ww s2))) in *.
    clearbody fp pb. unfold LEN. lia.
Qed.

(* C03e_end_to_end.
   hypotheses forced by the proofs used: maxcap <= Wr (the reader's buffer must serve the largest
   table look-ahead: code_read_machine), Wr <= 64 (RInv), and the 2^64-bit bound on the delivered
   stream (br_read_unary adds zero counts with a checked u64 addition, and bit_pos multiplies the word
   position by Wr with a checked u64 multiplication) *)
Theorem end_to_end E Ww Wr Dw Dr checks strict items :
  wordsize_ok Ww -> wordsize_ok Wr -> Wr <= 64 -> maxcap <= Wr ->
  Forall item_valid items ->
  LEN (stream E items) + Ww + 2 * Wr <= 2 ^ 64 ->
  exists s1 s2 sr,
    write_items E Ww Dw checks items (bw_new None Ww) = Ok (LEN (stream E items), s1) /\
    bw_flush E Ww s1 = Ok (LEN (stream E items) mod Ww, s2) /\
    read_items E Wr Dr items (br_new (words_of E Wr (bw_bytes E Ww s2)) strict)
      = Ok (decoded E 0 items, sr) /\
    RInv E Wr sr (LEN (stream E items)).
Proof.
  intros HWw HWr H64 Hcap Hv Hb.
  destruct (write_items_ok E Ww Dw checks items HWw Hv) as (s1 & Hw & HI1 & HA1 & Hc1).
  destruct (flushed_bytes E Ww (stream E items) s1 (conj HI1 HA1) Hc1)
    as (s2 & Hf & HI2 & Hsp & Hbits & Hfp & _ & _ & _).
  destruct (delivered_source E Ww Wr (stream E items) s2 HWw HWr Hbits Hfp) as ([z Hz] & Hlt & Hlen).
  set (ws := words_of E Wr (bw_bytes E Ww s2)) in *.
  pose proof (ReaderProofs.new_inv E Wr ws strict HWr H64 Hlt) as HIr.
  destruct (read_items_from E Wr Dr items (br_new ws strict) 0 (zeros z) HIr) as (sr & Hr & HIr' & _ & _).
  - cbn [br_new br_src ws_words]. lia.
  - exact Hcap.
  - exact Hv.
  - cbn [N.to_nat skipn]. unfold src_bits. cbn [br_new br_src ws_words]. exact Hz.
  - lia.
  - exists s1, s2, sr. rewrite N.add_0_l in HIr'. auto.
Qed.

(* C03e_end_to_end_unbuffered.
   hypothesis forced by the proofs used: fewer than 2^63 stream bits (code_read_umachine: the bit index
   of the unbuffered reader is kept below 2^63) *)
Theorem end_to_end_unbuffered E Ww Dw Dr checks strict items :
  wordsize_ok Ww -> Forall item_valid items ->
  LEN (stream E items) < 2 ^ 63 ->
  exists s1 s2 sr,
    write_items E Ww Dw checks items (bw_new None Ww) = Ok (LEN (stream E items), s1) /\
    bw_flush E Ww s1 = Ok (LEN (stream E items) mod Ww, s2) /\
    read_items_u E Dr items (ur_new (words_of E 64 (bw_bytes E Ww s2)) strict)
      = Ok (decoded E 0 items, sr) /\
    UInv sr /\ ur_index sr = LEN (stream E items).
Proof.
  intros HWw Hv Hb.
  destruct (write_items_ok E Ww Dw checks items HWw Hv) as (s1 & Hw & HI1 & HA1 & Hc1).
  destruct (flushed_bytes E Ww (stream E items) s1 (conj HI1 HA1) Hc1)
    as (s2 & Hf & HI2 & Hsp & Hbits & Hfp & _ & _ & _).
  destruct (delivered_source E Ww 64 (stream E items) s2 HWw wordsize_ok_64 Hbits Hfp) as ([z Hz] & Hlt & _).
  set (ws := words_of E 64 (bw_bytes E Ww s2)) in *.
  destruct (UReaderProofs.new_ok E ws strict Hlt) as (HU & _ & _).
  destruct (read_items_u_from E Dr items (ur_new ws strict) (zeros z) HU Hv) as (sr & Hr & HU' & Hidx & _).
  - cbn [ur_new ur_index]. lia.
  - cbn [ur_new ur_index ur_src N.to_nat skipn]. unfold src_bits. cbn [ws_words]. exact Hz.
  - exists s1, s2, sr. cbn [ur_new ur_index] in Hr, Hidx. rewrite N.add_0_l in Hidx. auto.
Qed.

(* ------------------------------------------------------------------ examples (non-vacuity) *)
Definition mk_item (id p flw flr v : N) : item :=
  {| it_id := id; it_p := p; it_flw := flw; it_flr := flr; it_v := v |}.
Definition ex_items : list item :=
  [ mk_item 1 0 1 0 5;        (* gamma 5: written with the table, read without *)
    mk_item 12 0 0 1 100;     (* zeta3 100: written without the table, read with *)
    mk_item 6 3 4 4 100;      (* zeta(k = 3) 100 *)
    mk_item 2 0 3 4 1000;     (* delta 1000: both tables on the write side, default method on the read side *)
    mk_item 8 7 0 0 20;       (* golomb(b = 7) 20 *)
    mk_item 0 0 0 0 70 ].     (* unary 70: longer than any word used below *)
Definition ex_Dw : params := buf_params.
Definition ex_Dr : params :=
  {| pr_gamma := true; pr_delta := (true, false); pr_zeta3 := false;
     pw_gamma := false; pw_delta := (false, false); pw_zeta3 := false;
     pl_gamma := false; pl_delta := (true, false); pl_zeta := false |}.

Definition ex_run (E : endian) (Ww Wr : N) (checks strict : bool) :=
  match write_items E Ww ex_Dw checks ex_items (bw_new None Ww) with
  | Ok (n, s1) =>
      match bw_flush E Ww s1 with
      | Ok (r, s2) =>
          match read_items E Wr ex_Dr ex_items (br_new (words_of E Wr (bw_bytes E Ww s2)) strict) with
          | Ok (l, _) => Some (n, r, bw_bytes E Ww s2, l)
          | _ => None end
      | _ => None end
  | _ => None end.
Definition ex_run_u (E : endian) (Ww : N) (checks strict : bool) :=
  match write_items E Ww ex_Dw checks ex_items (bw_new None Ww) with
  | Ok (n, s1) =>
      match bw_flush E Ww s1 with
      | Ok (r, s2) =>
          match read_items_u E ex_Dr ex_items (ur_new (words_of E 64 (bw_bytes E Ww s2)) strict) with
          | Ok (l, _) => Some (n, r, bw_bytes E Ww s2, l)
          | _ => None end
      | _ => None end
  | _ => None end.

Example ex_items_valid : Forall item_valid ex_items.
Proof.
  unfold ex_items.
  repeat (apply Forall_cons; [unfold item_valid, valid, mk_item, U64MAX, W64; cbn [it_id it_p it_v]; lia |]).
  apply Forall_nil.
Qed.
Example ex_hyps E : wordsize_ok 32 /\ wordsize_ok 16 /\ 16 <= 64 /\ maxcap <= 16 /\
  LEN (stream E ex_items) + 32 + 2 * 16 <= 2 ^ 64 /\ LEN (stream E ex_items) < 2 ^ 63.
Proof.
  split; [split; [lia | reflexivity] |]. split; [split; [lia | reflexivity] |]. split; [lia |].
  split; [rewrite maxcap_val; lia |]. destruct E; (vm_compute; split; [discriminate | reflexivity]).
Qed.

(* the theorems applied to the instance: 32-bit writer words, 16-bit reader words *)
Example ex_end_to_end E checks strict : exists s1 s2 sr,
  write_items E 32 ex_Dw checks ex_items (bw_new None 32) = Ok (LEN (stream E ex_items), s1) /\
  bw_flush E 32 s1 = Ok (LEN (stream E ex_items) mod 32, s2) /\
  read_items E 16 ex_Dr ex_items (br_new (words_of E 16 (bw_bytes E 32 s2)) strict) = Ok (decoded E 0 ex_items, sr) /\
  RInv E 16 sr (LEN (stream E ex_items)).
Proof.
  destruct (ex_hyps E) as (H1 & H2 & H3 & H4 & H5 & _).
  exact (end_to_end E 32 16 ex_Dw ex_Dr checks strict ex_items H1 H2 H3 H4 ex_items_valid H5).
Qed.
Example ex_end_to_end_unbuffered E checks strict : exists s1 s2 sr,
  write_items E 32 ex_Dw checks ex_items (bw_new None 32) = Ok (LEN (stream E ex_items), s1) /\
  bw_flush E 32 s1 = Ok (LEN (stream E ex_items) mod 32, s2) /\
  read_items_u E ex_Dr ex_items (ur_new (words_of E 64 (bw_bytes E 32 s2)) strict) = Ok (decoded E 0 ex_items, sr) /\
  UInv sr /\ ur_index sr = LEN (stream E ex_items).
Proof.
  destruct (ex_hyps E) as (H1 & _ & _ & _ & _ & H6).
  exact (end_to_end_unbuffered E 32 ex_Dw ex_Dr checks strict ex_items H1 ex_items_valid H6).
Qed.

(* the same instance evaluated: total bits written, bits flushed, delivered bytes, and the
   (value, position) pairs the reader reports *)
Example ex_run_LE : ex_run LE 32 16 true true =
  Some (120, 24, [148; 37; 44; 65; 165; 231; 1; 0; 0; 0; 0; 0; 0; 0; 128; 0],
        [(5, 5); (100, 16); (100, 27); (1000, 43); (20, 49); (70, 120)]).
Proof. vm_compute. reflexivity. Qed.
Example ex_run_BE : ex_run BE 32 16 true true =
  Some (120, 24, [49; 37; 36; 162; 189; 39; 128; 0; 0; 0; 0; 0; 0; 0; 1; 0],
        [(5, 5); (100, 16); (100, 27); (1000, 43); (20, 49); (70, 120)]).
Proof. vm_compute. reflexivity. Qed.
Example ex_decoded E : decoded E 0 ex_items = [(5, 5); (100, 16); (100, 27); (1000, 43); (20, 49); (70, 120)].
Proof. destruct E; vm_compute; reflexivity. Qed.

(* every combination of endianness, writer width 8..128, reader width 16..64 (and the unbuffered
   reader), checks on / off, strict / zero-extended source gives the same report *)
Definition ex_same {A} (o : option (N * N * list N * A)) (l : A) (eqb : A -> A -> bool) : bool :=
  match o with Some (_, _, _, l') => eqb l' l | None => false end.
Definition pair_eqb (a b : N * N) : bool := (fst a =? fst b) && (snd a =? snd b).
Definition ex_sweep : bool :=
  forallb (fun E => forallb (fun Ww => forallb (fun checks => forallb (fun strict =>
    ex_same (ex_run_u E Ww checks strict) (decoded E 0 ex_items) (list_eqb pair_eqb) &&
    forallb (fun Wr => ex_same (ex_run E Ww Wr checks strict) (decoded E 0 ex_items) (list_eqb pair_eqb))
            [16; 24; 32; 40; 48; 56; 64])
    [true; false]) [true; false]) [8; 16; 24; 32; 64; 72; 128]) [BE; LE].
Example ex_sweep_ok : ex_sweep = true.
Proof. vm_compute. reflexivity. Qed.
