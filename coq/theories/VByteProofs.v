(* VByteProofs.v — property C18 (byte-level part): the byte-level VByte functions
   (vbyte_be_encode / vbyte_le_encode, vbyte_read_be / vbyte_read_le, byte_len_vbyte)
   implement the complete 7-bit-group code of CodeDefs.def_vbyte_bytes. *)
From Coq Require Import List NArith Lia Bool.
From Coq Require Import ZifyBool ZifyNat ZifyN.
From DSI Require Import Base Codes Small CodeDefs.
Import ListNotations.
Open Scope N_scope.
Ltac Zify.zify_post_hook ::= Z.div_mod_to_equations.

(* ------------------------------------------------------------------ *)
(* Vocabulary of the statements *)

(* a terminated byte string: non-empty, bytes < 256, every byte but the last carries the
   continuation bit (>= 128), the last does not (< 128) *)
Definition terminated (s : list N) : Prop :=
  s <> [] /\ Forall (fun b => b < 256) s /\
  Forall (fun b => 128 <= b) (removelast s) /\ last s 0 < 128.

(* off L = sum_{i=1}^{L-1} 128^i : the least value written on L bytes *)
Fixpoint off_nat (n : nat) : N :=
  match n with
  | O => 0
  | S m => match m with O => 0 | S _ => off_nat m + 128 ^ N.of_nat m end
  end.
Definition off (L : N) : N := off_nat (N.to_nat L).

(* the (unbounded, mathematical) value of a byte string: offset of its length plus the
   base-128 number formed by the 7 low bits of its bytes *)
Fixpoint gval_le (s : list N) : N :=       (* least significant group first *)
  match s with [] => 0 | b :: r => b mod 128 + 128 * gval_le r end.
Definition vb_val_le (s : list N) : N := off (N.of_nat (length s)) + gval_le s.
Definition vb_val_be (s : list N) : N := vb_val_le (rev s).

(* ------------------------------------------------------------------ *)
(* Arithmetic helpers *)

Definition p128 (n : nat) : N := 128 ^ N.of_nat n.

Lemma p128_0 : p128 0 = 1.
Proof. reflexivity. Qed.

Lemma p128_S : forall n, p128 (S n) = 128 * p128 n.
Proof.
  intros n. unfold p128. rewrite Nat2N.inj_succ, N.pow_succ_r'. reflexivity.
Qed.

Lemma p128_pos : forall n, 1 <= p128 n.
Proof.
  induction n; [rewrite p128_0; lia | rewrite p128_S; lia].
Qed.

Lemma p128_mono : forall n m, (n <= m)%nat -> p128 n <= p128 m.
Proof.
  intros n m H. induction H; [lia | rewrite p128_S; lia].
Qed.

(* ones n = sum_{i<n} 128^i *)
Fixpoint ones (n : nat) : N :=
  match n with O => 0 | S m => 1 + 128 * ones m end.

Lemma ones_mono : forall n m, (n <= m)%nat -> ones n <= ones m.
Proof.
  intros n m H. induction H; [lia | cbn [ones]; lia].
Qed.

Lemma ones_closed : forall n, 127 * ones n + 1 = p128 n.
Proof.
  induction n; [reflexivity | cbn [ones]; rewrite p128_S; lia].
Qed.

Lemma off_nat_S : forall n, (1 <= n)%nat -> off_nat (S n) = off_nat n + p128 n.
Proof.
  intros [|n] H; [lia | reflexivity].
Qed.

Lemma off_nat_ones : forall n, off_nat (S n) + 1 = ones (S n).
Proof.
  induction n; [reflexivity|].
  rewrite off_nat_S by lia.
  change (ones (S (S n))) with (1 + 128 * ones (S n)).
  pose proof (ones_closed (S n)). lia.
Qed.

Lemma off_nat_succ_ones : forall n, off_nat (S n) = 128 * ones n.
Proof.
  intros n. pose proof (off_nat_ones n) as H. cbn [ones] in H. lia.
Qed.

Lemma land127 : forall b, N.land b 127 = b mod 128.
Proof.
  intros b. change 127 with (N.ones 7). rewrite N.land_ones. reflexivity.
Qed.

Lemma lor_add128 : forall x g, g < 128 -> N.lor (x * 128) g = x * 128 + g.
Proof.
  intros x g Hg.
  assert (HL : N.land (x * 128) g = 0).
  { apply N.bits_inj. intros n. rewrite N.land_spec, N.bits_0.
    destruct (N.ltb_spec n 7) as [Hn|Hn].
    - change 128 with (2 ^ 7). rewrite N.mul_pow2_bits_low by exact Hn. reflexivity.
    - replace g with (g mod 2 ^ 7) by (change (2 ^ 7) with 128; apply N.mod_small; exact Hg).
      rewrite N.mod_pow2_bits_high by exact Hn. apply andb_false_r. }
  rewrite <- N.lxor_lor by exact HL. symmetry. apply N.add_nocarry_lxor. exact HL.
Qed.

(* ------------------------------------------------------------------ *)
(* Bijective base-128 numeration: W s = (value of s) + 1 *)

Fixpoint Wle (s : list N) : N :=
  match s with [] => 0 | b :: r => (b mod 128 + 1) + 128 * Wle r end.
Fixpoint Wbe_acc (a : N) (s : list N) : N :=
  match s with [] => a | b :: r => Wbe_acc (a * 128 + (b mod 128 + 1)) r end.

(* recursive form of [terminated] *)
Fixpoint term (s : list N) : Prop :=
  match s with
  | [] => False
  | b :: r => match r with [] => b < 128 | _ :: _ => 128 <= b < 256 /\ term r end
  end.

Definition gl (s : list N) : list N := map (fun b => b mod 128) s.

Lemma term_single : forall b, term [b] <-> b < 128.
Proof. intros b. reflexivity. Qed.

Lemma term_cons : forall b r, r <> [] -> (term (b :: r) <-> 128 <= b < 256 /\ term r).
Proof. intros b [|c r] H; [congruence | reflexivity]. Qed.

Lemma term_nonempty : forall s, term s -> s <> [].
Proof. intros [|b r] H; [contradiction | discriminate]. Qed.

Lemma terminated_term : forall s, terminated s <-> term s.
Proof.
  unfold terminated. induction s as [|b r IH].
  - split; [intros [H _]; congruence | intros []].
  - destruct r as [|c r].
    + cbn [term removelast last]. split.
      * intros (_ & _ & _ & H). exact H.
      * intros H. repeat split; [discriminate | repeat constructor; lia | constructor | exact H].
    + change (term (b :: c :: r)) with (128 <= b < 256 /\ term (c :: r)).
      change (removelast (b :: c :: r)) with (b :: removelast (c :: r)).
      change (last (b :: c :: r) 0) with (last (c :: r) 0).
      rewrite <- IH. split.
      * intros (_ & HF & HR & HL). inversion HF; subst. inversion HR; subst.
        repeat split; try assumption; try lia. discriminate.
      * intros (Hb & _ & HF & HR & HL).
        repeat split; try assumption; try discriminate; constructor; try assumption; lia.
Qed.

Lemma term_lt256 : forall s, term s -> Forall (fun b => b < 256) s.
Proof.
  intros s H. apply terminated_term in H. apply H.
Qed.

Lemma Wle_pos : forall s, s <> [] -> 1 <= Wle s.
Proof. intros [|b r] H; [congruence | cbn [Wle]; lia]. Qed.

Lemma Wle_bounds : forall s, ones (length s) <= Wle s <= 128 * ones (length s).
Proof.
  induction s as [|b r IH]; cbn [Wle length ones]; lia.
Qed.

Lemma Wle_gl : forall s, Wle (gl s) = Wle s.
Proof.
  induction s as [|b r IH]; [reflexivity|].
  cbn [gl map Wle]. fold (gl r). rewrite IH. rewrite N.mod_mod by lia. reflexivity.
Qed.

Lemma Wle_inj_groups : forall g1 g2,
  Forall (fun g => g < 128) g1 -> Forall (fun g => g < 128) g2 ->
  Wle g1 = Wle g2 -> g1 = g2.
Proof.
  induction g1 as [|a r1 IH]; intros [|b r2] F1 F2 H.
  - reflexivity.
  - cbn [Wle] in H. lia.
  - cbn [Wle] in H. lia.
  - inversion F1; subst. inversion F2; subst. cbn [Wle] in H.
    assert (Wle r1 = Wle r2 /\ a = b) as [HW Hab] by lia.
    subst. f_equal. apply IH; assumption.
Qed.

Lemma gl_lt : forall s, Forall (fun g => g < 128) (gl s).
Proof.
  induction s; cbn [gl map]; constructor; [lia | assumption].
Qed.

Lemma gl_rev : forall s, gl (rev s) = rev (gl s).
Proof. intros s. unfold gl. apply map_rev. Qed.

Lemma gl_mark : forall gs, gl (mark_cont gs) = gl gs.
Proof.
  induction gs as [|g r IH]; [reflexivity|].
  destruct r as [|h r]; [reflexivity|].
  change (mark_cont (g :: h :: r)) with ((g + 128) :: mark_cont (h :: r)).
  cbn [gl map]. fold (gl (mark_cont (h :: r))). rewrite IH. cbn [gl map].
  f_equal. lia.
Qed.

Lemma term_mark : forall s, term s -> mark_cont (gl s) = s.
Proof.
  induction s as [|b r IH]; intros H; [contradiction|].
  destruct r as [|c r].
  - cbn [gl map mark_cont]. cbn [term] in H. f_equal. lia.
  - change (term (b :: c :: r)) with (128 <= b < 256 /\ term (c :: r)) in H.
    destruct H as [Hb Ht].
    change (gl (b :: c :: r)) with (b mod 128 :: c mod 128 :: gl r).
    change (mark_cont (b mod 128 :: c mod 128 :: gl r))
      with ((b mod 128 + 128) :: mark_cont (gl (c :: r))).
    rewrite IH by exact Ht. f_equal. lia.
Qed.

Lemma mark_term : forall gs, gs <> [] -> Forall (fun g => g < 128) gs -> term (mark_cont gs).
Proof.
  induction gs as [|g r IH]; intros Hne HF; [congruence|].
  inversion HF; subst. destruct r as [|h r].
  - cbn [mark_cont term]. assumption.
  - change (mark_cont (g :: h :: r)) with ((g + 128) :: mark_cont (h :: r)).
    assert (Ht : term (mark_cont (h :: r))) by (apply IH; [discriminate | assumption]).
    apply term_cons; [apply term_nonempty; exact Ht|]. split; [lia | exact Ht].
Qed.

Lemma gl_inj_term : forall s1 s2, term s1 -> term s2 -> gl s1 = gl s2 -> s1 = s2.
Proof.
  intros s1 s2 H1 H2 H. rewrite <- (term_mark s1 H1), <- (term_mark s2 H2), H. reflexivity.
Qed.

Lemma Wle_inj : forall s1 s2, term s1 -> term s2 -> Wle s1 = Wle s2 -> s1 = s2.
Proof.
  intros s1 s2 H1 H2 H. apply gl_inj_term; try assumption.
  apply Wle_inj_groups; try apply gl_lt. rewrite !Wle_gl. exact H.
Qed.

Lemma Wbe_acc_app : forall s t a, Wbe_acc a (s ++ t) = Wbe_acc (Wbe_acc a s) t.
Proof.
  induction s as [|b r IH]; intros t a; [reflexivity|]. cbn [app Wbe_acc]. apply IH.
Qed.

Lemma Wbe_rev : forall s, Wbe_acc 0 (rev s) = Wle s.
Proof.
  induction s as [|b r IH]; [reflexivity|].
  cbn [rev]. rewrite Wbe_acc_app, IH. cbn [Wbe_acc Wle]. lia.
Qed.

Lemma Wbe_Wle : forall s, Wbe_acc 0 s = Wle (rev s).
Proof. intros s. rewrite <- Wbe_rev, rev_involutive. reflexivity. Qed.

Lemma Wbe_acc_ge : forall s a, a <= Wbe_acc a s.
Proof.
  induction s as [|b r IH]; intros a; cbn [Wbe_acc]; [lia|].
  specialize (IH (a * 128 + (b mod 128 + 1))). lia.
Qed.

Lemma Wbe_inj : forall s1 s2, term s1 -> term s2 -> Wbe_acc 0 s1 = Wbe_acc 0 s2 -> s1 = s2.
Proof.
  intros s1 s2 H1 H2 H. apply gl_inj_term; try assumption.
  rewrite !Wbe_Wle in H. rewrite <- (Wle_gl (rev s1)), <- (Wle_gl (rev s2)) in H.
  apply Wle_inj_groups in H; try apply gl_lt.
  rewrite !gl_rev in H. rewrite <- (rev_involutive (gl s1)), <- (rev_involutive (gl s2)), H.
  reflexivity.
Qed.

(* length bounds from value bounds *)
Lemma ones_11 : W64 < ones 11.
Proof. vm_compute. reflexivity. Qed.

Lemma Wle_len10 : forall s, Wle s <= W64 -> (length s <= 10)%nat.
Proof.
  intros s H. destruct (Nat.le_gt_cases (length s) 10) as [|Hgt]; [assumption|].
  pose proof (ones_mono 11 (length s) Hgt). pose proof (Wle_bounds s). pose proof ones_11. lia.
Qed.

Lemma Wbe_len10 : forall s, Wbe_acc 0 s <= W64 -> (length s <= 10)%nat.
Proof.
  intros s H. rewrite Wbe_Wle in H. apply Wle_len10 in H. rewrite rev_length in H. exact H.
Qed.

(* connection with the readable value functions *)
Lemma Wle_gval : forall s, Wle s = gval_le s + ones (length s).
Proof.
  induction s as [|b r IH]; [reflexivity|]. cbn [Wle gval_le length ones]. lia.
Qed.

Lemma off_of_nat : forall n, off (N.of_nat n) = off_nat n.
Proof. intros n. unfold off. rewrite Nat2N.id. reflexivity. Qed.

Lemma Wle_val : forall s, s <> [] -> Wle s = vb_val_le s + 1.
Proof.
  intros [|b r] H; [congruence|]. unfold vb_val_le. rewrite off_of_nat, Wle_gval.
  cbn [length]. pose proof (off_nat_ones (length r)). lia.
Qed.

Lemma Wbe_val : forall s, s <> [] -> Wbe_acc 0 s = vb_val_be s + 1.
Proof.
  intros s H. unfold vb_val_be. rewrite Wbe_Wle. apply Wle_val.
  intros E. apply H. rewrite <- (rev_involutive s), E. reflexivity.
Qed.

(* ------------------------------------------------------------------ *)
(* Encoders *)

Lemma p128_11 : p128 11 = 151115727451828646838272.
Proof. vm_compute. reflexivity. Qed.
Lemma p128_10 : p128 10 = 1180591620717411303424.
Proof. vm_compute. reflexivity. Qed.

Lemma le_bytes_spec : forall fuel v, v + 1 < p128 fuel ->
  exists s, vbyte_le_bytes fuel v = Some s /\ term s /\ Wle s = v + 1.
Proof.
  induction fuel as [|f IH]; intros v Hv.
  - rewrite p128_0 in Hv. lia.
  - rewrite p128_S in Hv. cbn [vbyte_le_bytes]. rewrite land127.
    destruct (v / 128 =? 0) eqn:E.
    + apply N.eqb_eq in E. exists [v mod 128]. split; [reflexivity|]. split.
      * apply term_single. lia.
      * cbn [Wle]. lia.
    + apply N.eqb_neq in E.
      destruct (IH (v / 128 - 1)) as (s & Hs & Ht & HW); [lia|].
      rewrite Hs. exists ((v mod 128 + 128) :: s). split; [reflexivity|]. split.
      * apply term_cons; [apply term_nonempty; exact Ht|]. split; [lia | exact Ht].
      * cbn [Wle]. rewrite HW. lia.
Qed.

Lemma le_encode_spec : forall v, v < W64 ->
  exists s, vbyte_le_encode v = Some s /\ term s /\ Wle s = v + 1.
Proof.
  intros v Hv. apply le_bytes_spec. rewrite p128_11. unfold W64 in Hv. lia.
Qed.

Lemma le_encode_of_term : forall s, term s -> Wle s <= W64 ->
  vbyte_le_encode (Wle s - 1) = Some s.
Proof.
  intros s Ht Hb. pose proof (Wle_pos s (term_nonempty s Ht)) as Hp.
  destruct (le_encode_spec (Wle s - 1)) as (s' & Hs' & Ht' & HW'); [lia|].
  rewrite Hs'. f_equal. apply Wle_inj; try assumption. lia.
Qed.

Lemma be_bytes_spec : forall fuel q acc, q < p128 fuel ->
  exists p, vbyte_be_bytes fuel q acc = Some (p ++ acc) /\
            Forall (fun b => 128 <= b < 256) p /\ Wbe_acc 0 p = q.
Proof.
  induction fuel as [|f IH]; intros q acc Hq.
  - rewrite p128_0 in Hq. assert (q = 0) by lia. subst q.
    exists []. repeat split. constructor.
  - rewrite p128_S in Hq. cbn [vbyte_be_bytes]. destruct (q =? 0) eqn:E.
    + apply N.eqb_eq in E. subst q. exists []. repeat split. constructor.
    + apply N.eqb_neq in E. rewrite land127.
      destruct (IH ((q - 1) / 128) ((128 + (q - 1) mod 128) :: acc)) as (p & Hp & HF & HW); [lia|].
      rewrite Hp. exists (p ++ [128 + (q - 1) mod 128]). split; [|split].
      * rewrite <- app_assoc. reflexivity.
      * apply Forall_app. split; [exact HF|]. repeat constructor; lia.
      * rewrite Wbe_acc_app, HW. cbn [Wbe_acc]. lia.
Qed.

Lemma term_app_marks : forall p g,
  Forall (fun b => 128 <= b < 256) p -> g < 128 -> term (p ++ [g]).
Proof.
  induction p as [|b r IH]; intros g HF Hg.
  - apply term_single. exact Hg.
  - inversion HF; subst. cbn [app].
    assert (Ht : term (r ++ [g])) by (apply IH; assumption).
    apply term_cons; [apply term_nonempty; exact Ht|]. split; assumption.
Qed.

Lemma be_encode_spec : forall v, v < W64 ->
  exists s, vbyte_be_encode v = Some s /\ term s /\ Wbe_acc 0 s = v + 1.
Proof.
  intros v Hv. unfold vbyte_be_encode. rewrite land127.
  destruct (be_bytes_spec 10 (v / 128) [v mod 128]) as (p & Hp & HF & HW).
  { rewrite p128_10. unfold W64 in Hv. lia. }
  rewrite Hp. exists (p ++ [v mod 128]). split; [reflexivity|]. split.
  - apply term_app_marks; [exact HF | lia].
  - rewrite Wbe_acc_app, HW. cbn [Wbe_acc]. lia.
Qed.

Lemma be_encode_of_term : forall s, term s -> Wbe_acc 0 s <= W64 ->
  vbyte_be_encode (Wbe_acc 0 s - 1) = Some s.
Proof.
  intros s Ht Hb.
  assert (Hp : 1 <= Wbe_acc 0 s).
  { rewrite Wbe_Wle. apply Wle_pos. intros E. apply (term_nonempty s Ht).
    rewrite <- (rev_involutive s), E. reflexivity. }
  destruct (be_encode_spec (Wbe_acc 0 s - 1)) as (s' & Hs' & Ht' & HW'); [lia|].
  rewrite Hs'. f_equal. apply Wbe_inj; try assumption. lia.
Qed.

(* ------------------------------------------------------------------ *)
(* Readers on terminated strings whose value fits in 64 bits *)

Lemma Wbe_acc_cons : forall a b r,
  Wbe_acc a (b :: r) = Wbe_acc (a * 128 + (b mod 128 + 1)) r.
Proof. reflexivity. Qed.

Lemma read_be_loop_spec : forall s fuel v rest,
  term s -> (length s <= fuel)%nat -> Wbe_acc (v + 1) s <= W64 ->
  vbyte_read_be_loop fuel v (s ++ rest) = Ok (Wbe_acc (v + 1) s - 1, rest).
Proof.
  induction s as [|b r IH]; intros fuel v rest Ht Hl Hb; [contradiction|].
  destruct fuel as [|fuel]; [cbn [length] in Hl; lia|].
  change ((b :: r) ++ rest) with (b :: (r ++ rest)).
  cbn [vbyte_read_be_loop].
  rewrite Wbe_acc_cons in Hb |- *.
  pose proof (Wbe_acc_ge r ((v + 1) * 128 + (b mod 128 + 1))) as Hge.
  unfold add64. destruct (v + 1 <? W64) eqn:E; [|apply N.ltb_ge in E; unfold W64 in *; lia].
  rewrite land127. rewrite N.mod_small by (unfold W64 in *; lia).
  rewrite lor_add128 by lia.
  destruct r as [|c r].
  - cbn [term] in Ht. replace (b / 128 =? 0) with true by (symmetry; apply N.eqb_eq; lia).
    cbn [Wbe_acc app]. f_equal. f_equal. lia.
  - change (term (b :: c :: r)) with (128 <= b < 256 /\ term (c :: r)) in Ht.
    destruct Ht as [Hb' Ht].
    replace (b / 128 =? 0) with false by (symmetry; apply N.eqb_neq; lia).
    replace ((v + 1) * 128 + (b mod 128 + 1)) with ((v + 1) * 128 + b mod 128 + 1) in * by lia.
    apply IH; [exact Ht | cbn [length] in *; lia | exact Hb].
Qed.

Lemma read_be_spec : forall s rest, term s -> Wbe_acc 0 s <= W64 ->
  vbyte_read_be (s ++ rest) = Ok (Wbe_acc 0 s - 1, rest).
Proof.
  intros [|b r] rest Ht Hb; [contradiction|].
  pose proof (Wbe_len10 _ Hb) as Hlen.
  change ((b :: r) ++ rest) with (b :: (r ++ rest)).
  unfold vbyte_read_be. rewrite land127.
  rewrite Wbe_acc_cons in Hb |- *. rewrite N.mul_0_l, N.add_0_l in Hb |- *.
  destruct r as [|c r].
  - cbn [term] in Ht. replace (b / 128 =? 0) with true by (symmetry; apply N.eqb_eq; lia).
    cbn [Wbe_acc app]. f_equal. f_equal. lia.
  - change (term (b :: c :: r)) with (128 <= b < 256 /\ term (c :: r)) in Ht.
    destruct Ht as [Hb' Ht].
    replace (b / 128 =? 0) with false by (symmetry; apply N.eqb_neq; lia).
    apply read_be_loop_spec; [exact Ht | cbn [length] in *; lia | exact Hb].
Qed.

Lemma shift_lt_64 : forall shift res, shift = 0 \/ 2 ^ shift <= res -> res < W64 -> shift < 64.
Proof.
  intros shift res [->|H] Hr; [lia|].
  apply (N.pow_lt_mono_r_iff 2); [lia|]. change (2 ^ 64) with W64. lia.
Qed.

Lemma read_le_loop_spec : forall s fuel res shift rest,
  term s -> (length s <= fuel)%nat -> (shift = 0 \/ 2 ^ shift <= res) ->
  res + 2 ^ shift * (Wle s - 1) < W64 ->
  vbyte_read_le_loop fuel res shift (s ++ rest) = Ok (res + 2 ^ shift * (Wle s - 1), rest).
Proof.
  induction s as [|b r IH]; intros fuel res shift rest Ht Hl Hsh Hb; [contradiction|].
  destruct fuel as [|fuel]; [cbn [length] in Hl; lia|].
  change ((b :: r) ++ rest) with (b :: (r ++ rest)).
  cbn [vbyte_read_le_loop]. rewrite land127.
  replace (Wle (b :: r) - 1) with (b mod 128 + 128 * Wle r) in * by (cbn [Wle]; lia).
  set (g := b mod 128) in *. set (P := 2 ^ shift) in *.
  assert (EQ : P * (g + 128 * Wle r) = g * P + P * 128 * Wle r) by ring.
  rewrite EQ in *.
  assert (Hs : shift < 64) by (apply (shift_lt_64 shift res Hsh); lia).
  unfold shl64 at 1. fold P. replace (shift <? 64) with true by (symmetry; apply N.ltb_lt; exact Hs).
  rewrite N.mod_small by lia.
  unfold add64 at 1. replace (res + g * P <? W64) with true by (symmetry; apply N.ltb_lt; lia).
  destruct r as [|c r].
  - cbn [term] in Ht. replace (b / 128 =? 0) with true by (symmetry; apply N.eqb_eq; lia).
    cbn [Wle app]. f_equal. f_equal. lia.
  - change (term (b :: c :: r)) with (128 <= b < 256 /\ term (c :: r)) in Ht.
    destruct Ht as [Hb' Ht].
    replace (b / 128 =? 0) with false by (symmetry; apply N.eqb_neq; lia).
    assert (Hw : exists w, Wle (c :: r) = w + 1).
    { exists (Wle (c :: r) - 1). pose proof (Wle_pos (c :: r)). 
      assert (1 <= Wle (c :: r)) by (apply H; discriminate). lia. }
    destruct Hw as [w Hw]. rewrite Hw in *.
    assert (EP : 2 ^ (shift + 7) = P * 128).
    { rewrite N.pow_add_r. reflexivity. }
    assert (EQ2 : P * 128 * (w + 1) = P * 128 + P * 128 * w) by ring.
    rewrite EQ2 in *.
    assert (Hs7 : shift + 7 < 64).
    { apply (shift_lt_64 (shift + 7) (P * 128)); [right; rewrite EP; lia | lia]. }
    unfold shl64. replace (shift + 7 <? 64) with true by (symmetry; apply N.ltb_lt; exact Hs7).
    rewrite N.mul_1_l. rewrite EP. rewrite N.mod_small by lia.
    unfold add64. replace (res + g * P + P * 128 <? W64) with true by (symmetry; apply N.ltb_lt; lia).
    rewrite IH.
    + rewrite EP. f_equal. f_equal. replace (w + 1 - 1) with w by lia. lia.
    + exact Ht.
    + cbn [length] in *. lia.
    + right. rewrite EP. lia.
    + rewrite EP. replace (w + 1 - 1) with w by lia. lia.
Qed.

Lemma read_le_spec : forall s rest, term s -> Wle s <= W64 ->
  vbyte_read_le (s ++ rest) = Ok (Wle s - 1, rest).
Proof.
  intros s rest Ht Hb. pose proof (Wle_len10 _ Hb) as Hlen.
  pose proof (Wle_pos s (term_nonempty s Ht)) as Hp.
  unfold vbyte_read_le. rewrite read_le_loop_spec.
  - rewrite N.pow_0_r, N.mul_1_l, N.add_0_l. reflexivity.
  - exact Ht.
  - lia.
  - left. reflexivity.
  - rewrite N.pow_0_r, N.mul_1_l, N.add_0_l. lia.
Qed.

(* ------------------------------------------------------------------ *)
(* The published definition def_vbyte_bytes *)

Lemma groups_le_length : forall n r, length (groups_le n r) = n.
Proof. induction n; intros r; cbn [groups_le length]; [reflexivity | rewrite IHn; reflexivity]. Qed.

Lemma groups_le_lt : forall n r, Forall (fun g => g < 128) (groups_le n r).
Proof. induction n; intros r; cbn [groups_le]; constructor; [lia | apply IHn]. Qed.

Lemma Wle_groups : forall n r, Wle (groups_le n r) = r mod p128 n + ones n.
Proof.
  induction n as [|m IH]; intros r.
  - rewrite p128_0, N.mod_1_r. reflexivity.
  - cbn [groups_le Wle ones]. rewrite IH, p128_S.
    pose proof (p128_pos m).
    rewrite N.mod_mul_r by lia. rewrite N.mod_mod by lia.
    generalize ((r / 128) mod p128 m). intros x. lia.
Qed.

Lemma mark_cont_length : forall gs, length (mark_cont gs) = length gs.
Proof.
  induction gs as [|g r IH]; [reflexivity|]. destruct r as [|h r]; [reflexivity|].
  change (mark_cont (g :: h :: r)) with ((g + 128) :: mark_cont (h :: r)).
  cbn [length] in *. rewrite IH. reflexivity.
Qed.

Lemma vb_len_spec : forall fuel n v,
  (1 <= n)%nat -> off_nat n <= v -> v < off_nat (n + fuel) ->
  exists n', vb_len fuel v (off_nat n) (p128 (n - 1)) (N.of_nat n) = (N.of_nat n', off_nat n') /\
             (n <= n')%nat /\ off_nat n' <= v < off_nat (S n').
Proof.
  induction fuel as [|f IH]; intros n v Hn Hlo Hhi.
  - rewrite Nat.add_0_r in Hhi. lia.
  - cbn [vb_len].
    assert (E1 : p128 (n - 1) * 128 = p128 n).
    { destruct n as [|n]; [lia|]. rewrite p128_S. cbn [Nat.sub]. rewrite Nat.sub_0_r. lia. }
    rewrite E1. rewrite <- off_nat_S by exact Hn.
    destruct (v <? off_nat (S n)) eqn:E.
    + apply N.ltb_lt in E. exists n. repeat split; try lia.
    + apply N.ltb_ge in E.
      replace (p128 n) with (p128 (S n - 1)) by (cbn [Nat.sub]; rewrite Nat.sub_0_r; reflexivity).
      replace (N.of_nat n + 1) with (N.of_nat (S n)) by lia.
      destruct (IH (S n) v) as (n' & Hv & Hle & Hb); [lia | exact E | |].
      { replace (S n + f)%nat with (n + S f)%nat by lia. exact Hhi. }
      exists n'. repeat split; try lia. exact Hv.
Qed.

Lemma off_nat_11 : W64 < off_nat 11.
Proof. vm_compute. reflexivity. Qed.

Lemma def_groups : forall le v, v < W64 ->
  exists n gs, (1 <= n)%nat /\ length gs = n /\ Forall (fun g => g < 128) gs /\
    Wle gs = v + 1 /\
    def_vbyte_bytes le v = mark_cont (if le then gs else rev gs).
Proof.
  intros le v Hv.
  destruct (vb_len_spec 10 1 v) as (n & E & Hn & Hlo & Hhi).
  { lia. } { change (off_nat 1) with 0. lia. }
  { pose proof off_nat_11. change (1 + 10)%nat with 11%nat. lia. }
  exists n, (groups_le n (v - off_nat n)).
  split; [exact Hn|]. split; [apply groups_le_length|]. split; [apply groups_le_lt|]. split.
  - rewrite Wle_groups. rewrite off_nat_S in Hhi by exact Hn.
    rewrite N.mod_small by lia.
    destruct n as [|k]; [lia|]. pose proof (off_nat_ones k). lia.
  - unfold def_vbyte_bytes.
    change (vb_len 10 v 0 1 1) with (vb_len 10 v (off_nat 1) (p128 (1 - 1)) (N.of_nat 1)).
    rewrite E. rewrite Nat2N.id. reflexivity.
Qed.

Lemma def_spec_le : forall v, v < W64 ->
  term (def_vbyte_bytes true v) /\ Wle (def_vbyte_bytes true v) = v + 1.
Proof.
  intros v Hv. destruct (def_groups true v Hv) as (n & gs & Hn & Hl & HF & HW & E).
  rewrite E. split.
  - apply mark_term; [|exact HF]. intros ->. cbn [length] in Hl. lia.
  - rewrite <- Wle_gl, gl_mark, Wle_gl. exact HW.
Qed.

Lemma def_spec_be : forall v, v < W64 ->
  term (def_vbyte_bytes false v) /\ Wbe_acc 0 (def_vbyte_bytes false v) = v + 1.
Proof.
  intros v Hv. destruct (def_groups false v Hv) as (n & gs & Hn & Hl & HF & HW & E).
  rewrite E. split.
  - apply mark_term.
    + intros Hr. assert (length (rev gs) = 0%nat) by (rewrite Hr; reflexivity).
      rewrite rev_length in H. lia.
    + apply Forall_rev. exact HF.
  - rewrite Wbe_Wle, <- Wle_gl, gl_rev, gl_mark, gl_rev, rev_involutive, Wle_gl. exact HW.
Qed.

Lemma def_length_eq : forall v,
  length (def_vbyte_bytes false v) = length (def_vbyte_bytes true v).
Proof.
  intros v. unfold def_vbyte_bytes. destruct (vb_len 10 v 0 1 1) as [L o].
  rewrite !mark_cont_length, rev_length. reflexivity.
Qed.

(* ------------------------------------------------------------------ *)
(* Length function *)

Lemma byte_len_loop_le : forall fuel v len s,
  vbyte_le_bytes fuel v = Some s ->
  byte_len_vbyte_loop fuel v len = Some (len + N.of_nat (length s) - 1).
Proof.
  induction fuel as [|f IH]; intros v len s H; [discriminate|].
  cbn [vbyte_le_bytes] in H. cbn [byte_len_vbyte_loop].
  destruct (v / 128 =? 0).
  - inversion H; subst. cbn [length]. f_equal. lia.
  - destruct (vbyte_le_bytes f (v / 128 - 1)) as [r|] eqn:E; [|discriminate].
    inversion H; subst. rewrite (IH _ _ _ E). f_equal. cbn [length]. lia.
Qed.

(* ------------------------------------------------------------------ *)
(* Whatever the readers return with Ok is < 2^64 *)

Lemma add64_lt : forall a b c, add64 a b = Some c -> c = a + b /\ c < W64.
Proof.
  intros a b c H. unfold add64 in H. destruct (a + b <? W64) eqn:E; [|discriminate].
  apply N.ltb_lt in E. inversion H; subst. split; [reflexivity | exact E].
Qed.

Lemma shl64_some : forall a k t, shl64 a k = Some t -> k < 64 /\ t = (a * 2 ^ k) mod W64.
Proof.
  intros a k t H. unfold shl64 in H. destruct (k <? 64) eqn:E; [|discriminate].
  apply N.ltb_lt in E. inversion H; subst. split; [exact E | reflexivity].
Qed.

Lemma read_le_loop_lt : forall fuel res shift s v r,
  vbyte_read_le_loop fuel res shift s = Ok (v, r) -> v < W64.
Proof.
  induction fuel as [|f IH]; intros res shift s v r H; [discriminate|].
  cbn [vbyte_read_le_loop] in H. destruct s as [|b s]; [discriminate|].
  destruct (shl64 (N.land b 127) shift) as [t|]; [|discriminate].
  destruct (add64 res t) as [r1|] eqn:A; [|discriminate].
  destruct (b / 128 =? 0).
  - inversion H; subst. apply add64_lt in A. apply A.
  - destruct (shl64 1 (shift + 7)) as [o|]; [|discriminate].
    destruct (add64 r1 o) as [r2|]; [|discriminate].
    apply IH in H. exact H.
Qed.

Lemma be_step_lt : forall x b, N.lor ((x * 128) mod W64) (N.land b 127) < W64.
Proof.
  intros x b. change W64 with (144115188075855872 * 128).
  rewrite N.mul_mod_distr_r by lia. rewrite land127. rewrite lor_add128 by lia. lia.
Qed.

Lemma read_be_loop_lt : forall fuel v0 s v r,
  vbyte_read_be_loop fuel v0 s = Ok (v, r) -> v < W64.
Proof.
  induction fuel as [|f IH]; intros v0 s v r H; [discriminate|].
  cbn [vbyte_read_be_loop] in H. destruct s as [|b s]; [discriminate|].
  destruct (add64 v0 1) as [v1|]; [|discriminate].
  destruct (b / 128 =? 0).
  - inversion H; subst. apply be_step_lt.
  - apply IH in H. exact H.
Qed.

Lemma read_be_lt : forall s v r, vbyte_read_be s = Ok (v, r) -> v < W64.
Proof.
  intros [|b s] v r H; [discriminate|]. unfold vbyte_read_be in H.
  destruct (b / 128 =? 0).
  - inversion H; subst. rewrite land127. unfold W64. lia.
  - apply read_be_loop_lt in H. exact H.
Qed.

Lemma read_le_lt : forall s v r, vbyte_read_le s = Ok (v, r) -> v < W64.
Proof. intros s v r H. unfold vbyte_read_le in H. apply read_le_loop_lt in H. exact H. Qed.

(* ------------------------------------------------------------------ *)
(* LE reader: the only place where value bits can be dropped silently is the 10th byte
   (shift 63); if that byte is <= 1 nothing is dropped and an Ok result is exact. *)

Lemma pow2_7k_le : forall k, k <= 8 -> 2 ^ (7 * k) <= 72057594037927936. (* 2^56 *)
Proof.
  intros k Hk. change 72057594037927936 with (2 ^ 56). apply N.pow_le_mono_r; lia.
Qed.

Lemma read_le_loop_sound : forall s fuel res shift k v,
  shift = 7 * k -> term s ->
  (k + N.of_nat (length s) = 10 -> last s 0 <= 1) ->
  vbyte_read_le_loop fuel res shift s = Ok (v, []) ->
  v = res + 2 ^ shift * (Wle s - 1).
Proof.
  induction s as [|b r IH]; intros fuel res shift k v Hk Ht Hlast H; [contradiction|].
  destruct fuel as [|fuel]; [discriminate|].
  cbn [vbyte_read_le_loop] in H. rewrite land127 in H.
  replace (Wle (b :: r) - 1) with (b mod 128 + 128 * Wle r) by (cbn [Wle]; lia).
  destruct (shl64 (b mod 128) shift) as [t|] eqn:S1; [|discriminate].
  apply shl64_some in S1. destruct S1 as [Hs Et].
  destruct (add64 res t) as [r1|] eqn:A1; [|discriminate].
  apply add64_lt in A1. destruct A1 as [Er1 Hr1].
  destruct r as [|c r].
  - cbn [term] in Ht. replace (b / 128 =? 0) with true in H by (symmetry; apply N.eqb_eq; lia).
    inversion H; subst v r1 t. cbn [Wle]. rewrite N.mod_small.
    + rewrite N.mod_small by lia. ring.
    + rewrite (N.mod_small b 128) by lia.
      assert (Hk9 : k <= 9) by lia.
      destruct (N.eq_dec k 9) as [->|Hne].
      * cbn [length last] in Hlast. assert (b <= 1) by (apply Hlast; reflexivity).
        subst shift. change (2 ^ (7 * 9)) with 9223372036854775808. unfold W64. lia.
      * pose proof (pow2_7k_le k) as HP. subst shift.
        assert (2 ^ (7 * k) <= 72057594037927936) by (apply HP; lia).
        unfold W64. nia.
  - change (term (b :: c :: r)) with (128 <= b < 256 /\ term (c :: r)) in Ht.
    destruct Ht as [Hb' Ht].
    replace (b / 128 =? 0) with false in H by (symmetry; apply N.eqb_neq; lia).
    destruct (shl64 1 (shift + 7)) as [o|] eqn:S2; [|discriminate].
    apply shl64_some in S2. destruct S2 as [Hs2 Eo].
    destruct (add64 r1 o) as [r2|] eqn:A2; [|discriminate].
    apply add64_lt in A2. destruct A2 as [Er2 Hr2].
    assert (Hk8 : k <= 8) by lia.
    pose proof (pow2_7k_le k Hk8) as HP.
    assert (EP : 2 ^ (shift + 7) = 2 ^ shift * 128) by (rewrite N.pow_add_r; reflexivity).
    apply (IH fuel r2 (shift + 7) (k + 1) v) in H.
    + assert (HP' : 2 ^ shift <= 72057594037927936) by (subst shift; exact HP).
      assert (Hg1 : b mod 128 * 2 ^ shift <= 127 * 2 ^ shift) by (apply N.mul_le_mono_r; lia).
      rewrite H, Er2, Er1, Et, Eo, EP, N.mul_1_l.
      rewrite (N.mod_small (b mod 128 * 2 ^ shift)) by (unfold W64; lia).
      rewrite (N.mod_small (2 ^ shift * 128)) by (unfold W64; lia).
      assert (Hw : exists w, Wle (c :: r) = w + 1).
      { exists (Wle (c :: r) - 1). pose proof (Wle_pos (c :: r)).
        assert (1 <= Wle (c :: r)) by (apply H0; discriminate). lia. }
      destruct Hw as [w Hw]. rewrite Hw. replace (w + 1 - 1) with w by lia. ring.
    + lia.
    + exact Ht.
    + intros E. change (last (b :: c :: r) 0) with (last (c :: r) 0) in Hlast.
      apply Hlast. cbn [length] in *. lia.
Qed.

(* ------------------------------------------------------------------ *)
(* Main theorems of C18 (byte-level part) *)

Lemma term_val_le : forall s, term s -> Wle s = vb_val_le s + 1.
Proof. intros s H. apply Wle_val, term_nonempty, H. Qed.
Lemma term_val_be : forall s, term s -> Wbe_acc 0 s = vb_val_be s + 1.
Proof. intros s H. apply Wbe_val, term_nonempty, H. Qed.

(* full characterisation of the encoders *)
Theorem encode_be_char : forall v, v < W64 ->
  exists bs, vbyte_be_encode v = Some bs /\ terminated bs /\ vb_val_be bs = v.
Proof.
  intros v Hv. destruct (be_encode_spec v Hv) as (s & Hs & Ht & HW).
  exists s. split; [exact Hs|]. split; [apply terminated_term; exact Ht|].
  rewrite term_val_be in HW by exact Ht. lia.
Qed.

Theorem encode_le_char : forall v, v < W64 ->
  exists bs, vbyte_le_encode v = Some bs /\ terminated bs /\ vb_val_le bs = v.
Proof.
  intros v Hv. destruct (le_encode_spec v Hv) as (s & Hs & Ht & HW).
  exists s. split; [exact Hs|]. split; [apply terminated_term; exact Ht|].
  rewrite term_val_le in HW by exact Ht. lia.
Qed.

(* full characterisation of the readers on terminated strings whose value fits in 64 bits *)
Theorem read_be_char : forall s rest, terminated s -> vb_val_be s < W64 ->
  vbyte_read_be (s ++ rest) = Ok (vb_val_be s, rest).
Proof.
  intros s rest Ht Hv. apply terminated_term in Ht.
  pose proof (term_val_be s Ht) as E.
  rewrite read_be_spec by (try exact Ht; lia). f_equal. f_equal. lia.
Qed.

Theorem read_le_char : forall s rest, terminated s -> vb_val_le s < W64 ->
  vbyte_read_le (s ++ rest) = Ok (vb_val_le s, rest).
Proof.
  intros s rest Ht Hv. apply terminated_term in Ht.
  pose proof (term_val_le s Ht) as E.
  rewrite read_le_spec by (try exact Ht; lia). f_equal. f_equal. lia.
Qed.

Theorem roundtrip_be : forall v rest, v < W64 ->
  exists bs, vbyte_be_encode v = Some bs /\ vbyte_read_be (bs ++ rest) = Ok (v, rest).
Proof.
  intros v rest Hv. destruct (encode_be_char v Hv) as (bs & He & Ht & Hval).
  exists bs. split; [exact He|]. rewrite read_be_char by (try exact Ht; lia).
  rewrite Hval. reflexivity.
Qed.

Theorem roundtrip_le : forall v rest, v < W64 ->
  exists bs, vbyte_le_encode v = Some bs /\ vbyte_read_le (bs ++ rest) = Ok (v, rest).
Proof.
  intros v rest Hv. destruct (encode_le_char v Hv) as (bs & He & Ht & Hval).
  exists bs. split; [exact He|]. rewrite read_le_char by (try exact Ht; lia).
  rewrite Hval. reflexivity.
Qed.

Theorem bytes_wf : forall v bs, v < W64 ->
  (vbyte_be_encode v = Some bs \/ vbyte_le_encode v = Some bs) ->
  (length bs <= 10)%nat /\ Forall (fun b => b < 256) bs /\ terminated bs.
Proof.
  intros v bs Hv [H|H].
  - destruct (be_encode_spec v Hv) as (s & Hs & Ht & HW).
    rewrite Hs in H. inversion H; subst s. split; [|split].
    + apply Wbe_len10. lia.
    + apply term_lt256. exact Ht.
    + apply terminated_term. exact Ht.
  - destruct (le_encode_spec v Hv) as (s & Hs & Ht & HW).
    rewrite Hs in H. inversion H; subst s. split; [|split].
    + apply Wle_len10. lia.
    + apply term_lt256. exact Ht.
    + apply terminated_term. exact Ht.
Qed.

Theorem def_be : forall v, v < W64 -> vbyte_be_encode v = Some (def_vbyte_bytes false v).
Proof.
  intros v Hv. destruct (def_spec_be v Hv) as [Ht HW].
  pose proof (be_encode_of_term _ Ht) as H. rewrite HW in H.
  replace (v + 1 - 1) with v in H by lia. apply H. lia.
Qed.

Theorem def_le : forall v, v < W64 -> vbyte_le_encode v = Some (def_vbyte_bytes true v).
Proof.
  intros v Hv. destruct (def_spec_le v Hv) as [Ht HW].
  pose proof (le_encode_of_term _ Ht) as H. rewrite HW in H.
  replace (v + 1 - 1) with v in H by lia. apply H. lia.
Qed.

Theorem len_le : forall v bs, v < W64 -> vbyte_le_encode v = Some bs ->
  byte_len_vbyte v = Some (N.of_nat (length bs)).
Proof.
  intros v bs Hv H. unfold byte_len_vbyte, vbyte_le_encode in *.
  rewrite (byte_len_loop_le _ _ 1 _ H). f_equal. lia.
Qed.

Theorem len_be : forall v bs, v < W64 -> vbyte_be_encode v = Some bs ->
  byte_len_vbyte v = Some (N.of_nat (length bs)).
Proof.
  intros v bs Hv H. rewrite (def_be v Hv) in H. inversion H; subst bs.
  rewrite def_length_eq. apply len_le; [exact Hv | apply def_le; exact Hv].
Qed.

Lemma off_succ : forall n, off (N.of_nat n + 1) = 128 * ones n.
Proof.
  intros n. replace (N.of_nat n + 1) with (N.of_nat (S n)) by lia.
  rewrite off_of_nat. apply off_nat_succ_ones.
Qed.

Theorem len_steps : forall v L, v < W64 -> byte_len_vbyte v = Some L ->
  off L <= v < off (L + 1) /\ 1 <= L <= 10.
Proof.
  intros v L Hv H. destruct (le_encode_spec v Hv) as (s & Hs & Ht & HW).
  rewrite (len_le v s Hv Hs) in H. inversion H; subst L.
  pose proof (Wle_bounds s) as HB. pose proof (Wle_len10 s) as HL.
  pose proof (term_nonempty s Ht) as Hne.
  rewrite off_succ, off_of_nat.
  destruct s as [|b r]; [congruence|]. cbn [length] in *.
  pose proof (off_nat_ones (length r)). split; [lia|]. split; [lia|].
  assert (S (length r) <= 10)%nat by (apply HL; lia). lia.
Qed.

(* closed form of the offsets *)
Theorem off_closed : forall L, off L = (128 ^ L - 128) / 127.
Proof.
  intros L. unfold off. destruct (N.to_nat L) as [|n] eqn:E.
  - assert (L = 0) by lia. subst L. reflexivity.
  - assert (EL : L = N.of_nat (S n)) by lia.
    pose proof (off_nat_ones n) as H1. pose proof (ones_closed (S n)) as H2.
    unfold p128 in H2. rewrite <- EL in H2. lia.
Qed.

(* completeness + uniqueness, under the guard "the value of the string fits in 64 bits" *)
Theorem complete_be : forall s v, terminated s -> vb_val_be s < W64 ->
  vbyte_read_be s = Ok (v, []) -> vbyte_be_encode v = Some s.
Proof.
  intros s v Ht Hv H. pose proof (read_be_char s [] Ht Hv) as R.
  rewrite app_nil_r, H in R. inversion R; subst v.
  apply terminated_term in Ht. pose proof (term_val_be s Ht) as E.
  pose proof (be_encode_of_term s Ht) as H1. rewrite E in H1.
  replace (vb_val_be s + 1 - 1) with (vb_val_be s) in H1 by lia. apply H1. lia.
Qed.

Theorem complete_le : forall s v, terminated s -> vb_val_le s < W64 ->
  vbyte_read_le s = Ok (v, []) -> vbyte_le_encode v = Some s.
Proof.
  intros s v Ht Hv H. pose proof (read_le_char s [] Ht Hv) as R.
  rewrite app_nil_r, H in R. inversion R; subst v.
  apply terminated_term in Ht. pose proof (term_val_le s Ht) as E.
  pose proof (le_encode_of_term s Ht) as H1. rewrite E in H1.
  replace (vb_val_le s + 1 - 1) with (vb_val_le s) in H1 by lia. apply H1. lia.
Qed.

(* the guard is exact: whenever the reader answers Ok on a terminated string, the string is
   the encoding of the answer iff its value fits in 64 bits *)
Theorem complete_be_iff : forall s v, terminated s -> vbyte_read_be s = Ok (v, []) ->
  (vbyte_be_encode v = Some s <-> vb_val_be s < W64).
Proof.
  intros s v Ht H. split; [|intros Hv; apply (complete_be s v Ht Hv H)].
  intros He. pose proof (read_be_lt _ _ _ H) as Hlt.
  destruct (encode_be_char v Hlt) as (bs & He' & _ & Hval).
  rewrite He in He'. inversion He'; subst bs. lia.
Qed.

Theorem complete_le_iff : forall s v, terminated s -> vbyte_read_le s = Ok (v, []) ->
  (vbyte_le_encode v = Some s <-> vb_val_le s < W64).
Proof.
  intros s v Ht H. split; [|intros Hv; apply (complete_le s v Ht Hv H)].
  intros He. pose proof (read_le_lt _ _ _ H) as Hlt.
  destruct (encode_le_char v Hlt) as (bs & He' & _ & Hval).
  rewrite He in He'. inversion He'; subst bs. lia.
Qed.

(* simple sufficient guards *)
Lemma ones_9 : 128 * ones 9 < W64.
Proof. vm_compute. reflexivity. Qed.

Theorem val_le_len9 : forall s, terminated s -> (length s <= 9)%nat -> vb_val_le s < W64.
Proof.
  intros s Ht Hl. apply terminated_term in Ht. pose proof (term_val_le s Ht).
  pose proof (Wle_bounds s). pose proof (ones_mono _ _ Hl). pose proof ones_9. lia.
Qed.

Theorem val_be_len9 : forall s, terminated s -> (length s <= 9)%nat -> vb_val_be s < W64.
Proof.
  intros s Ht Hl. apply terminated_term in Ht. pose proof (term_val_be s Ht) as E.
  rewrite Wbe_Wle in E. pose proof (Wle_bounds (rev s)) as HB. rewrite rev_length in HB.
  pose proof (ones_mono _ _ Hl). pose proof ones_9. lia.
Qed.

Theorem complete_be_len9 : forall s v, terminated s -> (length s <= 9)%nat ->
  vbyte_read_be s = Ok (v, []) -> vbyte_be_encode v = Some s.
Proof.
  intros s v Ht Hl. apply complete_be; [exact Ht | apply val_be_len9; assumption].
Qed.

(* LE reader: the checked additions catch every overflow except bits of the 10th byte
   shifted out by `<< 63`; so "a 10-byte string ends with 0 or 1" is a sufficient guard *)
Theorem complete_le_last : forall s v, terminated s ->
  (length s = 10%nat -> last s 0 <= 1) ->
  vbyte_read_le s = Ok (v, []) -> vbyte_le_encode v = Some s.
Proof.
  intros s v Ht Hlast H. pose proof (read_le_lt _ _ _ H) as Hlt.
  pose proof Ht as Ht'. apply terminated_term in Ht.
  unfold vbyte_read_le in H.
  apply (read_le_loop_sound s 24 0 0 0 v) in H; [|reflexivity | exact Ht | intros E; apply Hlast; lia].
  rewrite N.pow_0_r, N.mul_1_l, N.add_0_l in H. subst v.
  apply le_encode_of_term; [exact Ht|].
  pose proof (Wle_pos s (term_nonempty s Ht)). lia.
Qed.

(* the guards are needed: both readers answer Ok with a value reduced modulo 2^64 on some
   terminated strings *)
Theorem complete_be_guard_needed :
  exists s v, terminated s /\ vbyte_read_be s = Ok (v, []) /\ vbyte_be_encode v <> Some s.
Proof.
  exists [129;128;128;128;128;128;128;128;128;0], 72624976668147840.
  split; [|split].
  - apply terminated_term. cbn [term]. lia.
  - vm_compute. reflexivity.
  - vm_compute. discriminate.
Qed.

Theorem complete_le_guard_needed :
  exists s v, terminated s /\ vbyte_read_le s = Ok (v, []) /\ vbyte_le_encode v <> Some s.
Proof.
  exists [128;128;128;128;128;128;128;128;128;2], 9295997013522923648.
  split; [|split].
  - apply terminated_term. cbn [term]. lia.
  - vm_compute. reflexivity.
  - vm_compute. discriminate.
Qed.

(* the BE reader also wraps silently on strings longer than 10 bytes (up to its fuel) *)
Example be_reader_wraps_11 :
  vbyte_read_be [128;128;128;128;128;128;128;128;128;128;0] = Ok (9295997013522923648, []) /\
  vb_val_be [128;128;128;128;128;128;128;128;128;128;0] = 1189887617730934227072.
Proof. split; vm_compute; reflexivity. Qed.

(* injectivity of the encoders *)
Theorem injective_be : forall v1 v2 bs, v1 < W64 -> v2 < W64 ->
  vbyte_be_encode v1 = Some bs -> vbyte_be_encode v2 = Some bs -> v1 = v2.
Proof.
  intros v1 v2 bs H1 H2 E1 E2.
  destruct (roundtrip_be v1 [] H1) as (b1 & Eb1 & R1).
  destruct (roundtrip_be v2 [] H2) as (b2 & Eb2 & R2).
  rewrite E1 in Eb1. rewrite E2 in Eb2. inversion Eb1; inversion Eb2; subst b1 b2.
  rewrite R1 in R2. inversion R2. reflexivity.
Qed.

Theorem injective_le : forall v1 v2 bs, v1 < W64 -> v2 < W64 ->
  vbyte_le_encode v1 = Some bs -> vbyte_le_encode v2 = Some bs -> v1 = v2.
Proof.
  intros v1 v2 bs H1 H2 E1 E2.
  destruct (roundtrip_le v1 [] H1) as (b1 & Eb1 & R1).
  destruct (roundtrip_le v2 [] H2) as (b2 & Eb2 & R2).
  rewrite E1 in Eb1. rewrite E2 in Eb2. inversion Eb1; inversion Eb2; subst b1 b2.
  rewrite R1 in R2. inversion R2. reflexivity.
Qed.

(* ------------------------------------------------------------------ *)
(* The hypotheses are satisfiable on concrete instances *)

Example ex_offsets : off 1 = 0 /\ off 2 = 128 /\ off 3 = 128 + 16384 /\ off 10 = 9295997013522923648.
Proof. repeat split; try (vm_compute; reflexivity); vm_compute; discriminate. Qed.

Example ex_roundtrip :
  300 < W64 /\ vbyte_be_encode 300 = Some [129; 44] /\ vbyte_le_encode 300 = Some [172; 1] /\
  vbyte_read_be ([129; 44] ++ [7]) = Ok (300, [7]) /\
  vbyte_read_le ([172; 1] ++ [7]) = Ok (300, [7]) /\
  def_vbyte_bytes false 300 = [129; 44] /\ def_vbyte_bytes true 300 = [172; 1] /\
  byte_len_vbyte 300 = Some 2 /\ off 2 <= 300 < off 3.
Proof. repeat split; try (vm_compute; reflexivity); vm_compute; discriminate. Qed.

Example ex_max :
  W64 - 1 < W64 /\
  vbyte_be_encode (W64 - 1) = Some [128;254;254;254;254;254;254;254;254;127] /\
  vbyte_le_encode (W64 - 1) = Some [255;254;254;254;254;254;254;254;254;0] /\
  vbyte_read_be [128;254;254;254;254;254;254;254;254;127] = Ok (W64 - 1, []) /\
  vbyte_read_le [255;254;254;254;254;254;254;254;254;0] = Ok (W64 - 1, []) /\
  byte_len_vbyte (W64 - 1) = Some 10.
Proof. repeat split; try (vm_compute; reflexivity); vm_compute; discriminate. Qed.

Example ex_complete :
  terminated [129; 44] /\ vb_val_be [129; 44] < W64 /\ vbyte_read_be [129; 44] = Ok (300, []) /\
  terminated [172; 1] /\ vb_val_le [172; 1] < W64 /\ vbyte_read_le [172; 1] = Ok (300, []) /\
  (length [172; 1] <= 9)%nat.
Proof.
  repeat split; try (vm_compute; reflexivity); try discriminate;
    try (repeat constructor; lia); try (cbn [length]; lia).
Qed.
