(* AdapterProofs.v — property C11: the byte-stream word adapter of Small.v
   (write_all / read_exact under arbitrary fault schedules) is transparent and loss-free. *)
From Coq Require Import ZifyBool ZifyNat ZifyN.
From DSI Require Import Small Run.
Ltac Zify.zify_post_hook ::= Z.div_mod_to_equations.

Arguments N.add : simpl never.
Arguments N.sub : simpl never.
Arguments N.mul : simpl never.
Arguments N.div : simpl never.
Arguments N.modulo : simpl never.
Arguments N.pow : simpl never.
Arguments N.eqb : simpl never.
Arguments N.ltb : simpl never.
Arguments N.leb : simpl never.
Arguments N.min : simpl never.
Arguments N.max : simpl never.
Arguments N.of_nat : simpl never.
Arguments N.to_nat : simpl never.

(* ------------------------------------------------------------------ *)
(* list lemmas *)

Lemma firstn_add {A} n m : forall (l : list A),
  firstn (n + m) l = firstn n l ++ firstn m (skipn n l).
Proof.
  induction n as [|n IH]; intro l; simpl; auto.
  destruct l as [|a l]; simpl.
  - rewrite firstn_nil. reflexivity.
  - f_equal. apply IH.
Qed.

Lemma firstn_length_app {A} (a b : list A) : firstn (length a) (a ++ b) = a.
Proof. induction a; simpl; auto. f_equal; auto. Qed.

Lemma skipn_length_app {A} (a b : list A) : skipn (length a) (a ++ b) = b.
Proof. induction a; simpl; auto. Qed.

Lemma app_inj_len {A} (a : list A) : forall b x y,
  length a = length b -> a ++ x = b ++ y -> a = b /\ x = y.
Proof.
  induction a as [|a0 a IH]; intros [|b0 b] x y Hl H; simpl in *; try discriminate; auto.
  inversion H; subst. destruct (IH b x y) as [-> ->]; auto.
Qed.

Lemma concat_groups_inj n : forall (g1 g2 : list (list N)) r1 r2,
  Forall (fun g => length g = n) g1 -> Forall (fun g => length g = n) g2 ->
  length g1 = length g2 ->
  concat g1 ++ r1 = concat g2 ++ r2 -> g1 = g2 /\ r1 = r2.
Proof.
  induction g1 as [|h1 g1 IH]; intros [|h2 g2] r1 r2 F1 F2 Hl H; simpl in *;
    try discriminate; auto.
  inversion F1; inversion F2; subst.
  rewrite <- !app_assoc in H. apply app_inj_len in H; [|congruence].
  destruct H as [-> H]. destruct (IH g2 r1 r2) as [-> ->]; auto.
Qed.

(* ------------------------------------------------------------------ *)
(* unfolding equations of the two loops *)

Lemma write_all_nil_buf sched sink : write_all sched [] sink = (Ok sink, sched, []).
Proof. destruct sched; reflexivity. Qed.

Lemma write_all_nil_sched buf sink : write_all [] buf sink = (Ok (sink ++ buf), [], []).
Proof. destruct buf; simpl; [rewrite app_nil_r|]; reflexivity. Qed.

Lemma write_all_cons e r buf sink : buf <> [] ->
  write_all (e :: r) buf sink =
  match e with
  | Accept k =>
      if k =? 0 then (Err, r, sink)
      else let k' := N.min k (N.of_nat (length buf)) in
           write_all r (skipn (N.to_nat k') buf) (sink ++ firstn (N.to_nat k') buf)
  | Interrupted => write_all r buf sink
  | HardErr => (Err, r, sink)
  end.
Proof. destruct buf; [congruence|reflexivity]. Qed.

Lemma read_exact_0 sched src got : read_exact sched 0 src got = (Ok got, sched, src).
Proof. destruct sched; reflexivity. Qed.

Lemma read_exact_nil need src got : need <> O ->
  read_exact [] need src got =
  if N.of_nat need <=? N.of_nat (length src)
  then (Ok (got ++ firstn need src), [], skipn need src) else (Err, [], []).
Proof. destruct need; [congruence|reflexivity]. Qed.

Lemma read_exact_cons e r need src got : need <> O ->
  read_exact (e :: r) need src got =
  match e with
  | Accept k =>
      let k' := N.to_nat (N.min (N.min k (N.of_nat need)) (N.of_nat (length src))) in
      match k' with
      | O => (Err, r, src)
      | S _ => read_exact r (need - k') (skipn k' src) (got ++ firstn k' src)
      end
  | Interrupted => read_exact r need src got
  | HardErr => (Err, r, src)
  end.
Proof. destruct need; [congruence|reflexivity]. Qed.

(* ------------------------------------------------------------------ *)
(* write_all never loses, duplicates or reorders bytes *)

Lemma write_all_spec : forall sched buf sink,
  match write_all sched buf sink with
  | (Ok sink', _, _) => sink' = sink ++ buf
  | (Err, _, sink') => exists k, (k < length buf)%nat /\ sink' = sink ++ firstn k buf
  | _ => False
  end.
Proof.
  induction sched as [|e r IH]; intros buf sink.
  - rewrite write_all_nil_sched. reflexivity.
  - destruct buf as [|b buf'].
    { rewrite write_all_nil_buf. symmetry. apply app_nil_r. }
    set (B := b :: buf'). assert (Hne : B <> []) by discriminate.
    assert (Hlen : (0 < length B)%nat) by (simpl; lia). clearbody B.
    rewrite write_all_cons by auto. destruct e as [k| |].
    + destruct (k =? 0) eqn:K.
      * simpl. exists 0%nat. split; auto. simpl. rewrite app_nil_r. reflexivity.
      * cbv zeta. set (k' := N.to_nat (N.min k (N.of_nat (length B)))).
        specialize (IH (skipn k' B) (sink ++ firstn k' B)).
        destruct (write_all r (skipn k' B) (sink ++ firstn k' B)) as [[o r'] x].
        destruct o as [a| | |]; auto.
        -- rewrite IH, <- app_assoc, firstn_skipn. reflexivity.
        -- destruct IH as (k0 & H1 & H2). exists (k' + k0)%nat.
           rewrite skipn_length in H1. split; [lia|].
           rewrite H2, <- app_assoc, firstn_add. reflexivity.
    + apply IH.
    + simpl. exists 0%nat. split; auto. simpl. rewrite app_nil_r. reflexivity.
Qed.

Theorem no_silent_loss_write : forall W sched w sink,
  match adapter_write_word W sched w sink with
  | (Ok sink', _, _) => sink' = sink ++ word_bytes LE W w
  | (Err, _, sink') =>
      exists k, (k < length (word_bytes LE W w))%nat /\
                sink' = sink ++ firstn k (word_bytes LE W w)
  | _ => False
  end.
Proof. intros. apply write_all_spec. Qed.

(* ------------------------------------------------------------------ *)
(* a sequence of words, threading the schedule *)

Inductive wres :=
| WAllOk (sink : list N) (sched : list io_event)            (* every call returned Ok *)
| WErrAt (n : nat) (sink : list N) (sched : list io_event)  (* call number n returned Err *)
| WBad.                                                     (* a call panicked: impossible *)

Fixpoint write_words (W : N) (sched : list io_event) (ws : list N) (sink : list N) : wres :=
  match ws with
  | [] => WAllOk sink sched
  | w :: r =>
      match adapter_write_word W sched w sink with
      | (Ok sink', sched', _) =>
          match write_words W sched' r sink' with
          | WErrAt n s c => WErrAt (S n) s c
          | x => x
          end
      | (Err, sched', sink') => WErrAt 0 sink' sched'
      | _ => WBad
      end
  end.

Theorem write_words_spec : forall W ws sched sink,
  match write_words W sched ws sink with
  | WAllOk sink' _ => sink' = sink ++ flat_map (word_bytes LE W) ws
  | WErrAt n sink' _ =>
      (n < length ws)%nat /\
      exists k, (k < length (word_bytes LE W (nth n ws 0%N)))%nat /\
        sink' = sink ++ flat_map (word_bytes LE W) (firstn n ws)
                     ++ firstn k (word_bytes LE W (nth n ws 0))
  | WBad => False
  end.
Proof.
  intros W ws. induction ws as [|w r IH]; intros sched sink.
  - simpl. rewrite app_nil_r. reflexivity.
  - simpl write_words. pose proof (no_silent_loss_write W sched w sink) as H.
    destruct (adapter_write_word W sched w sink) as [[o sched'] x].
    destruct o as [a| | |]; auto.
    + subst a. specialize (IH sched' (sink ++ word_bytes LE W w)).
      destruct (write_words W sched' r (sink ++ word_bytes LE W w)) as [s' c|n s' c|]; auto.
      * rewrite IH. simpl. rewrite <- app_assoc. reflexivity.
      * destruct IH as (Hn & k & Hk & Hs). split; [simpl; lia|].
        exists k. split; [exact Hk|]. rewrite Hs. simpl. rewrite <- !app_assoc. reflexivity.
    + destruct H as (k & Hk & Hs). split; [simpl; lia|].
      exists k. split; [exact Hk|]. exact Hs.
Qed.

(* the driver of Run.v is this sequence, encoded *)
Lemma run_adapter_write_write_words : forall W ws sched sink,
  run_adapter_write W sched ws sink =
  match write_words W sched ws sink with
  | WAllOk s _ => repeat [0] (length ws) ++ [99 :: s]
  | WErrAt n s _ => repeat [0] n ++ [[1]; 99 :: s]
  | WBad => []
  end.
Proof.
  intros W ws. induction ws as [|w r IH]; intros sched sink.
  - reflexivity.
  - simpl. pose proof (no_silent_loss_write W sched w sink) as H.
    destruct (adapter_write_word W sched w sink) as [[o sched'] x].
    destruct o as [a| | |]; try tauto.
    rewrite IH. pose proof (write_words_spec W r sched' a) as H2.
      destruct (write_words W sched' r a); [reflexivity|reflexivity|destruct H2].
Qed.

(* ------------------------------------------------------------------ *)
(* read_exact never skips or duplicates bytes *)

Lemma read_exact_spec : forall sched need src got,
  match read_exact sched need src got with
  | (Ok bs, _, src') => exists t, length t = need /\ src = t ++ src' /\ bs = got ++ t
  | (Err, _, _) => True
  | _ => False
  end.
Proof.
  induction sched as [|e r IH]; intros need src got;
    (destruct (Nat.eq_dec need 0) as [->|Hn];
     [rewrite read_exact_0; exists []; rewrite app_nil_r; auto|]).
  - rewrite read_exact_nil by auto.
    destruct (N.of_nat need <=? N.of_nat (length src)) eqn:E; auto.
    exists (firstn need src). rewrite firstn_length_le by lia.
    rewrite firstn_skipn. auto.
  - rewrite read_exact_cons by auto. destruct e as [k| |]; [|apply IH|exact I].
    cbv zeta.
    remember (N.to_nat (N.min (N.min k (N.of_nat need)) (N.of_nat (length src)))) as q eqn:Eq.
    destruct q as [|j]; auto.
    set (q := S j) in *.
    specialize (IH (need - q)%nat (skipn q src) (got ++ firstn q src)).
    destruct (read_exact r (need - q) (skipn q src) (got ++ firstn q src)) as [[o r'] x].
    destruct o as [a| | |]; auto.
    destruct IH as (t & H1 & H2 & H3).
    exists (firstn q src ++ t). split; [|split].
    + rewrite app_length, firstn_length_le by lia. lia.
    + rewrite <- app_assoc, <- H2, firstn_skipn. reflexivity.
    + rewrite H3, app_assoc. reflexivity.
Qed.

Theorem no_silent_loss_read : forall W sched src,
  match adapter_read_word W sched src with
  | (Ok w, _, src') =>
      exists bs, length bs = N.to_nat (W / 8) /\ src = bs ++ src' /\ w = of_le_bytes bs
  | (Err, _, _) => True
  | _ => False
  end.
Proof.
  intros W sched src. unfold adapter_read_word.
  pose proof (read_exact_spec sched (N.to_nat (W / 8)) src []) as H.
  destruct (read_exact sched (N.to_nat (W / 8)) src []) as [[o r] s].
  destruct o as [a| | |]; simpl; auto.
  destruct H as (t & H1 & H2 & H3). exists t. simpl in H3. subst a. auto.
Qed.

(* a sequence of reads *)
Fixpoint read_words (W : N) (cnt : nat) (sched : list io_event) (src : list N)
  : list N * outcome unit * list io_event * list N :=
  match cnt with
  | O => ([], Ok tt, sched, src)
  | S c =>
      match adapter_read_word W sched src with
      | (Ok w, sched', src') =>
          let '(ws, o, sc, sr) := read_words W c sched' src' in (w :: ws, o, sc, sr)
      | (Err, sched', src') => ([], Err, sched', src')
      | (Fail, sched', src') => ([], Fail, sched', src')
      | (Fuel, sched', src') => ([], Fuel, sched', src')
      end
  end.

Theorem read_words_spec : forall W cnt sched src,
  let '(ws, o, _, src') := read_words W cnt sched src in
  exists groups : list (list N),
    Forall (fun g => length g = N.to_nat (W / 8)) groups /\
    ws = map of_le_bytes groups /\
    match o with
    | Ok _ => length ws = cnt /\ src = concat groups ++ src'
    | Err => (length ws < cnt)%nat /\ exists rest, src = concat groups ++ rest
    | _ => False
    end.
Proof.
  intros W cnt. induction cnt as [|c IH]; intros sched src.
  - simpl. exists []. simpl. auto.
  - simpl read_words. pose proof (no_silent_loss_read W sched src) as H.
    destruct (adapter_read_word W sched src) as [[o sched'] src1].
    destruct o as [w| | |]; try tauto.
    + destruct H as (bs & H1 & H2 & H3).
      specialize (IH sched' src1).
      destruct (read_words W c sched' src1) as [[[ws o] sc] sr].
      destruct IH as (groups & G1 & G2 & G3).
      exists (bs :: groups). split; [constructor; auto|].
      split; [simpl; congruence|].
      destruct o as [u| | |]; auto.
      * destruct G3 as [G3 G4]. split; [simpl; congruence|].
        simpl. rewrite <- app_assoc, <- G4. exact H2.
      * destruct G3 as [G3 (rest & G4)]. split; [simpl; lia|].
        exists rest. simpl. rewrite <- app_assoc, <- G4. exact H2.
    + exists []. simpl. repeat split; auto; [lia|]. exists src. reflexivity.
Qed.

Lemma run_adapter_read_read_words : forall W cnt sched src,
  run_adapter_read W cnt sched src =
  let '(ws, o, _, _) := read_words W cnt sched src in
  map (fun w => [0; w]) ws ++ match o with Ok _ => [] | _ => [[1]] end.
Proof.
  intros W cnt. induction cnt as [|c IH]; intros sched src.
  - reflexivity.
  - simpl. destruct (adapter_read_word W sched src) as [[o sched'] src1].
    destruct o as [w| | |]; try reflexivity.
    rewrite IH. destruct (read_words W c sched' src1) as [[[ws o] sc] sr]. reflexivity.
Qed.

(* ------------------------------------------------------------------ *)
(* bytes <-> words *)

Lemma le_bytes_length n : forall x, length (le_bytes n x) = n.
Proof. induction n; intro x; simpl; auto. Qed.

Lemma word_bytes_length W w : length (word_bytes LE W w) = N.to_nat (W / 8).
Proof. apply le_bytes_length. Qed.

Lemma of_le_bytes_le_bytes n : forall x,
  of_le_bytes (le_bytes n x) = x mod 256 ^ N.of_nat n.
Proof.
  induction n as [|n IH]; intro x.
  - simpl. change (N.of_nat 0) with 0. rewrite N.pow_0_r, N.mod_1_r. reflexivity.
  - simpl. rewrite IH, Nat2N.inj_succ, N.pow_succ_r'.
    rewrite N.mod_mul_r by (try (apply N.pow_nonzero); lia). reflexivity.
Qed.

Lemma pow256_bytes W : W mod 8 = 0 -> 256 ^ N.of_nat (N.to_nat (W / 8)) = 2 ^ W.
Proof.
  intro H. rewrite N2Nat.id. change 256 with (2 ^ 8). rewrite <- N.pow_mul_r.
  f_equal. lia.
Qed.

Lemma of_le_bytes_word_bytes W w :
  W mod 8 = 0 -> of_le_bytes (word_bytes LE W w) = w mod 2 ^ W.
Proof.
  intro H. unfold word_bytes. rewrite of_le_bytes_le_bytes, pow256_bytes; auto.
Qed.

(* ------------------------------------------------------------------ *)
(* transparency without faults *)

Lemma read_exact_nil_app n bs rest got :
  length bs = n -> read_exact [] n (bs ++ rest) got = (Ok (got ++ bs), [], rest).
Proof.
  intro H. destruct (Nat.eq_dec n 0) as [->|Hn].
  - apply length_zero_iff_nil in H. subst bs. rewrite read_exact_0, app_nil_r. reflexivity.
  - rewrite read_exact_nil by auto. subst n.
    destruct (N.of_nat (length bs) <=? N.of_nat (length (bs ++ rest))) eqn:E.
    + rewrite firstn_length_app, skipn_length_app. reflexivity.
    + rewrite app_length in E. lia.
Qed.

Theorem transparent_write : forall W ws sink,
  write_words W [] ws sink = WAllOk (sink ++ flat_map (word_bytes LE W) ws) [].
Proof.
  intros W ws. induction ws as [|w r IH]; intro sink.
  - simpl. rewrite app_nil_r. reflexivity.
  - simpl. unfold adapter_write_word. rewrite write_all_nil_sched, IH, <- app_assoc.
    reflexivity.
Qed.

Theorem transparent_read_mod : forall W ws tail,
  W mod 8 = 0 ->
  read_words W (length ws) [] (flat_map (word_bytes LE W) ws ++ tail) =
  (map (fun w => w mod 2 ^ W) ws, Ok tt, [], tail).
Proof.
  intros W ws tail HW. induction ws as [|w r IH].
  - reflexivity.
  - simpl. unfold adapter_read_word. rewrite <- app_assoc.
    rewrite read_exact_nil_app by apply word_bytes_length.
    cbn [omap app]. rewrite IH, of_le_bytes_le_bytes, pow256_bytes by auto. reflexivity.
Qed.

Lemma map_mod_small W ws :
  Forall (fun w => w < 2 ^ W) ws -> map (fun w => w mod 2 ^ W) ws = ws.
Proof.
  induction 1 as [|w r H _ IH]; simpl; auto.
  rewrite IH, N.mod_small by auto. reflexivity.
Qed.

Theorem transparent : forall W ws sink tail,
  W mod 8 = 0 -> Forall (fun w => w < 2 ^ W) ws ->
  write_words W [] ws sink = WAllOk (sink ++ flat_map (word_bytes LE W) ws) [] /\
  read_words W (length ws) [] (flat_map (word_bytes LE W) ws ++ tail) =
    (ws, Ok tt, [], tail).
Proof.
  intros W ws sink tail HW Hws. split; [apply transparent_write|].
  rewrite transparent_read_mod by auto. rewrite map_mod_small by auto. reflexivity.
Qed.

(* transparency under ANY schedules: whenever all writes and all reads succeed, whatever
   partial transfers / interruptions happened, the words read back are the words written *)
Theorem roundtrip_any_schedule : forall W ws sched1 sched2 img r1 tail ws' r2 src',
  W mod 8 = 0 -> Forall (fun w => w < 2 ^ W) ws ->
  write_words W sched1 ws [] = WAllOk img r1 ->
  read_words W (length ws) sched2 (img ++ tail) = (ws', Ok tt, r2, src') ->
  img = flat_map (word_bytes LE W) ws /\ ws' = ws /\ src' = tail.
Proof.
  intros W ws sched1 sched2 img r1 tail ws' r2 src' HW Hws Hw Hr.
  pose proof (write_words_spec W ws sched1 []) as H1. rewrite Hw in H1. simpl in H1.
  pose proof (read_words_spec W (length ws) sched2 (img ++ tail)) as H2. rewrite Hr in H2.
  destruct H2 as (groups & G1 & G2 & G3 & G4).
  split; auto. subst img ws'. rewrite map_length in G3.
  rewrite flat_map_concat_map in G4.
  apply concat_groups_inj with (n := N.to_nat (W / 8)) in G4; auto.
  - destruct G4 as [<- ->]. split; auto.
    rewrite map_map. rewrite <- (map_mod_small W ws Hws) at 2.
    apply map_ext. intro w. apply of_le_bytes_word_bytes; auto.
  - apply Forall_forall. intros g Hg. apply in_map_iff in Hg.
    destruct Hg as (w & <- & _). apply word_bytes_length.
  - rewrite map_length. auto.
Qed.

(* ------------------------------------------------------------------ *)
(* Interrupted events are harmless *)

Fixpoint strip (sched : list io_event) : list io_event :=
  match sched with
  | [] => []
  | Interrupted :: r => strip r
  | e :: r => e :: strip r
  end.

Lemma strip_insert s1 s2 : strip (s1 ++ Interrupted :: s2) = strip (s1 ++ s2).
Proof.
  induction s1 as [|e s1 IH]; simpl; auto. destruct e; simpl; congruence.
Qed.

Lemma strip_idem s : strip (strip s) = strip s.
Proof. induction s as [|e s IH]; simpl; auto. destruct e; simpl; congruence. Qed.

Lemma write_all_strip : forall sched buf sink,
  write_all (strip sched) buf sink =
  let '(o, r, x) := write_all sched buf sink in (o, strip r, x).
Proof.
  induction sched as [|e r IH]; intros buf sink.
  - simpl strip. rewrite write_all_nil_sched. reflexivity.
  - destruct buf as [|b buf'].
    { rewrite !write_all_nil_buf. reflexivity. }
    set (B := b :: buf'). assert (Hne : B <> []) by discriminate. clearbody B.
    rewrite (write_all_cons e r) by auto. destruct e as [k| |]; simpl strip.
    + rewrite write_all_cons by auto. destruct (k =? 0); [reflexivity|]. apply IH.
    + apply IH.
    + rewrite write_all_cons by auto. reflexivity.
Qed.

Lemma read_exact_strip : forall sched need src got,
  read_exact (strip sched) need src got =
  let '(o, r, x) := read_exact sched need src got in (o, strip r, x).
Proof.
  induction sched as [|e r IH]; intros need src got;
    (destruct (Nat.eq_dec need 0) as [->|Hn]; [rewrite !read_exact_0; reflexivity|]).
  - simpl strip. rewrite read_exact_nil by auto.
    destruct (N.of_nat need <=? N.of_nat (length src)); reflexivity.
  - rewrite (read_exact_cons e r) by auto. destruct e as [k| |]; simpl strip.
    + rewrite read_exact_cons by auto. cbv zeta.
      destruct (N.to_nat (N.min (N.min k (N.of_nat need)) (N.of_nat (length src))));
        [reflexivity|apply IH].
    + apply IH.
    + rewrite read_exact_cons by auto. reflexivity.
Qed.

Lemma adapter_read_word_strip W sched src :
  adapter_read_word W (strip sched) src =
  let '(o, r, x) := adapter_read_word W sched src in (o, strip r, x).
Proof.
  unfold adapter_read_word. rewrite read_exact_strip.
  destruct (read_exact sched (N.to_nat (W / 8)) src []) as [[o r] x]. reflexivity.
Qed.

Definition wres_map_sched (f : list io_event -> list io_event) (x : wres) : wres :=
  match x with
  | WAllOk s c => WAllOk s (f c)
  | WErrAt n s c => WErrAt n s (f c)
  | WBad => WBad
  end.

Lemma write_words_strip : forall W ws sched sink,
  write_words W (strip sched) ws sink = wres_map_sched strip (write_words W sched ws sink).
Proof.
  intros W ws. induction ws as [|w r IH]; intros sched sink.
  - reflexivity.
  - simpl. unfold adapter_write_word. rewrite write_all_strip.
    destruct (write_all sched (word_bytes LE W w) sink) as [[o sched'] x].
    destruct o as [a| | |]; try reflexivity.
    rewrite IH. destruct (write_words W sched' r a); reflexivity.
Qed.

Lemma read_words_strip : forall W cnt sched src,
  read_words W cnt (strip sched) src =
  let '(ws, o, r, x) := read_words W cnt sched src in (ws, o, strip r, x).
Proof.
  intros W cnt. induction cnt as [|c IH]; intros sched src.
  - reflexivity.
  - simpl. rewrite adapter_read_word_strip.
    destruct (adapter_read_word W sched src) as [[o sched'] x].
    destruct o as [a| | |]; try reflexivity.
    rewrite IH. destruct (read_words W c sched' x) as [[[ws o] sc] sr]. reflexivity.
Qed.

(* same outcome, same bytes transferred, same remaining schedule up to Interrupted events *)
Definition same_transfer {A} (a b : outcome A * list io_event * list N) : Prop :=
  fst (fst a) = fst (fst b) /\ snd a = snd b /\ strip (snd (fst a)) = strip (snd (fst b)).

Lemma strip_triple_inj {A} (a b : outcome A * list io_event * list N) :
  (let '(o, r, x) := a in (o, strip r, x)) = (let '(o, r, x) := b in (o, strip r, x)) ->
  same_transfer a b.
Proof.
  destruct a as [[o r] x], b as [[o' r'] x']. intro H. inversion H.
  unfold same_transfer; simpl. auto.
Qed.

Theorem interrupted_harmless_write : forall W sched sched' w sink,
  strip sched = strip sched' ->
  same_transfer (adapter_write_word W sched w sink) (adapter_write_word W sched' w sink).
Proof.
  intros W sched sched' w sink H. apply strip_triple_inj.
  unfold adapter_write_word. rewrite <- !write_all_strip, H. reflexivity.
Qed.

Theorem interrupted_harmless_read : forall W sched sched' src,
  strip sched = strip sched' ->
  same_transfer (adapter_read_word W sched src) (adapter_read_word W sched' src).
Proof.
  intros W sched sched' src H. apply strip_triple_inj.
  rewrite <- !adapter_read_word_strip, H. reflexivity.
Qed.

Theorem interrupted_harmless_write_words : forall W sched sched' ws sink,
  strip sched = strip sched' ->
  wres_map_sched strip (write_words W sched ws sink) =
  wres_map_sched strip (write_words W sched' ws sink).
Proof.
  intros W sched sched' ws sink H. rewrite <- !write_words_strip, H. reflexivity.
Qed.

Theorem interrupted_harmless_read_words : forall W cnt sched sched' src,
  strip sched = strip sched' ->
  (let '(ws, o, r, x) := read_words W cnt sched src in (ws, o, strip r, x)) =
  (let '(ws, o, r, x) := read_words W cnt sched' src in (ws, o, strip r, x)).
Proof.
  intros W cnt sched sched' src H. rewrite <- !read_words_strip, H. reflexivity.
Qed.

(* the literal "insert one Interrupted anywhere" form, for all four entry points *)
Theorem interrupted_harmless : forall W s1 s2,
  (forall w sink,
     same_transfer (adapter_write_word W (s1 ++ Interrupted :: s2) w sink)
                   (adapter_write_word W (s1 ++ s2) w sink)) /\
  (forall src,
     same_transfer (adapter_read_word W (s1 ++ Interrupted :: s2) src)
                   (adapter_read_word W (s1 ++ s2) src)) /\
  (forall ws sink,
     wres_map_sched strip (write_words W (s1 ++ Interrupted :: s2) ws sink) =
     wres_map_sched strip (write_words W (s1 ++ s2) ws sink)) /\
  (forall cnt src,
     (let '(ws, o, r, x) := read_words W cnt (s1 ++ Interrupted :: s2) src in
      (ws, o, strip r, x)) =
     (let '(ws, o, r, x) := read_words W cnt (s1 ++ s2) src in (ws, o, strip r, x))).
Proof.
  intros W s1 s2. pose proof (strip_insert s1 s2) as H.
  split; [|split; [|split]]; intros.
  - apply interrupted_harmless_write; auto.
  - apply interrupted_harmless_read; auto.
  - apply interrupted_harmless_write_words; auto.
  - apply interrupted_harmless_read_words; auto.
Qed.

(* ------------------------------------------------------------------ *)
(* word positions *)

Theorem word_pos_whole : forall W n,
  W mod 8 = 0 -> 0 < W -> adapter_word_pos W (n * (W / 8)) = n.
Proof.
  intros W n H8 H0. unfold adapter_word_pos. cbv zeta.
  assert (Hb : 0 < W / 8) by lia. set (b := W / 8) in *. clearbody b.
  symmetry. apply N.div_unique with (r := b - 1); lia.
Qed.

(* a position inside a word counts as the next word (div_ceil) *)
Theorem word_pos_partial : forall W n r,
  W mod 8 = 0 -> 0 < W -> 0 < r < W / 8 -> adapter_word_pos W (n * (W / 8) + r) = n + 1.
Proof.
  intros W n r H8 H0 Hr. unfold adapter_word_pos. cbv zeta.
  set (b := W / 8) in *. clearbody b.
  symmetry. apply N.div_unique with (r := r - 1); lia.
Qed.

Theorem seek_word : forall W i,
  i * (W / 8) < W64 -> adapter_seek W i = Some (i * (W / 8)).
Proof.
  intros W i H. unfold adapter_seek, mul64.
  destruct (i * (W / 8) <? W64) eqn:E; [reflexivity|lia].
Qed.

Theorem seek_overflow : forall W i,
  W64 <= i * (W / 8) -> adapter_seek W i = None.
Proof.
  intros W i H. unfold adapter_seek, mul64.
  destruct (i * (W / 8) <? W64) eqn:E; [lia|reflexivity].
Qed.

Theorem word_pos : forall W i,
  W mod 8 = 0 -> 0 < W ->
  adapter_word_pos W (i * (W / 8)) = i /\
  (i * (W / 8) < W64 ->
   adapter_seek W i = Some (i * (W / 8)) /\
   option_map (adapter_word_pos W) (adapter_seek W i) = Some i).
Proof.
  intros W i H8 H0. split; [apply word_pos_whole; auto|].
  intro H. rewrite seek_word by auto. split; auto.
  simpl. rewrite word_pos_whole; auto.
Qed.

(* ------------------------------------------------------------------ *)
(* Examples: W = 8, 32, 128 under the faulty schedule [Accept 3; Interrupted; Accept 1; HardErr] *)

Definition ex_sched : list io_event := [Accept 3; Interrupted; Accept 1; HardErr].

Example ex_hyps : (8 mod 8 = 0 /\ 0 < 8) /\ (32 mod 8 = 0 /\ 0 < 32) /\ (128 mod 8 = 0 /\ 0 < 128)
  /\ Forall (fun w => w < 2 ^ 32) [287454020; 4294967295; 0].
Proof. repeat split; try reflexivity. repeat constructor. Qed.

(* W = 32: the first word goes through in two partial writes (3 bytes, interruption, 1 byte);
   the second call hits the hard error with nothing written: no byte is lost or duplicated *)
Example ex_write_32 :
  adapter_write_word 32 ex_sched 287454020 [7] = (Ok [7; 68; 51; 34; 17], [HardErr], []) /\
  write_words 32 ex_sched [287454020; 4294967295; 0] [7]
    = WErrAt 1 [7; 68; 51; 34; 17] [].
Proof. split; vm_compute; reflexivity. Qed.

(* W = 128: 4 bytes are accepted, then the hard error: Err, and the sink holds exactly the
   first 4 bytes of the word *)
Example ex_write_128 :
  adapter_write_word 128 ex_sched (2 ^ 127 + 258) [] = (Err, [], [2; 1; 0; 0]) /\
  firstn 4 (word_bytes LE 128 (2 ^ 127 + 258)) = [2; 1; 0; 0].
Proof. split; vm_compute; reflexivity. Qed.

(* W = 8: one byte per word; words 1,2 succeed, the third meets HardErr *)
Example ex_write_8 :
  write_words 8 ex_sched [200; 201; 202; 203] [] = WErrAt 2 [200; 201] [].
Proof. vm_compute. reflexivity. Qed.

Example ex_read_32 :
  adapter_read_word 32 ex_sched [68; 51; 34; 17; 9; 9] = (Ok 287454020, [HardErr], [9; 9]) /\
  read_words 32 2 ex_sched [68; 51; 34; 17; 9; 9; 9; 9] = ([287454020], Err, [], [9; 9; 9; 9]).
Proof. split; vm_compute; reflexivity. Qed.

Example ex_read_128 :
  fst (fst (adapter_read_word 128 ex_sched (word_bytes LE 128 (2 ^ 127 + 258)))) = Err.
Proof. vm_compute. reflexivity. Qed.

Example ex_read_8 :
  read_words 8 4 ex_sched [200; 201; 202; 203] = ([200; 201], Err, [], [202; 203]).
Proof. vm_compute. reflexivity. Qed.

Example ex_transparent_128 :
  let ws := [2 ^ 127 + 258; 5; 2 ^ 128 - 1] in
  exists img, write_words 128 [] ws [] = WAllOk img [] /\ length img = 48%nat /\
              read_words 128 3 [] img = (ws, Ok tt, [], []).
Proof. eexists. split; [vm_compute; reflexivity|]. split; vm_compute; reflexivity. Qed.

Example ex_interrupted_32 :
  adapter_write_word 32 [Interrupted; Accept 3; Accept 1; Interrupted; HardErr] 287454020 [7]
  = (Ok [7; 68; 51; 34; 17], [Interrupted; HardErr], []).
Proof. vm_compute. reflexivity. Qed.

Example ex_word_pos :
  adapter_word_pos 32 (5 * 4) = 5 /\ adapter_word_pos 128 (5 * 16 + 3) = 6 /\
  adapter_seek 32 5 = Some 20 /\ adapter_seek 8 U64MAX = Some U64MAX /\
  adapter_seek 128 (2 ^ 60) = None.
Proof. repeat split; vm_compute; reflexivity. Qed.
