(* Run.v — the case interpreter shared by the correspondence check: a case is a list of
   groups of numbers (header, data, operations); the result is a list of groups.  The
   same function is run extracted (OCaml driver) and inside Coq (cases.v, vm_compute);
   the Rust harness interprets the same case language against the real crate. *)
From DSI Require Export World Dispatch Names Small Stats CodeDefs CursorModel.
From DSI.Gen Require Export GenTables GenParams.
From Coq Require Import Ascii.
Open Scope list_scope.
Open Scope N_scope.

Definition st_of {A} (o : outcome A) : N :=
  match o with Ok _ => 0 | Err => 1 | Fail => 2 | Fuel => 3 end.
Definition endian_of (n : N) : endian := if n =? 0 then BE else LE.
Definition nth0 (l : list N) (i : nat) : N := nth i l 0.
Definition bool_of (n : N) : bool := negb (n =? 0).

(* ------------------------------------------------------------------ *)
(* code selection by number: 0 unary 1 gamma 2 delta 3 omega 4 vbyte_be 5 vbyte_le 6 zeta(k)
   7 pi(k) 8 golomb(b) 9 exp_golomb(k) 10 rice(k) 11 minimal_binary(u) 12 zeta3
   flags: bit0 = own table, bit1 = gamma table (delta), 4 = the parameterless default method *)
Section CodeSel.
  Variable E : endian.
  Variable D : params.
  Variable checks : bool.
  Let T := the_tables.

  Definition sel_read (id p fl : N) : rprog N :=
    let dflt := fl =? 4 in
    let t0 := N.testbit fl 0 in let t1 := N.testbit fl 1 in
    match id with
    | 0 => read_unary_code
    | 1 => if dflt then read_gamma E T D else read_gamma_param E T t0
    | 2 => if dflt then read_delta E T D else read_delta_param E T t0 t1
    | 3 => read_omega E
    | 4 => read_vbyte_be
    | 5 => read_vbyte_le
    | 6 => read_zeta_param p
    | 7 => read_pi p
    | 8 => read_golomb p
    | 9 => read_exp_golomb E T D p
    | 10 => read_rice p
    | 11 => read_minimal_binary p
    | 12 => if dflt then read_zeta3 E T D else read_zeta3_param E T t0
    | _ => RFail
    end.

  Definition sel_write (id p fl v : N) : wprog N :=
    let dflt := fl =? 4 in
    let t0 := N.testbit fl 0 in let t1 := N.testbit fl 1 in
    match id with
    | 0 => write_unary_code v
    | 1 => if dflt then write_gamma E T D checks v else write_gamma_param E T checks t0 v
    | 2 => if dflt then write_delta E T D checks v else write_delta_param E T checks t0 t1 v
    | 3 => write_omega E checks v
    | 4 => write_vbyte_be v
    | 5 => write_vbyte_le v
    | 6 => write_zeta_param v p
    | 7 => write_pi checks v p
    | 8 => write_golomb v p
    | 9 => write_exp_golomb E T D checks v p
    | 10 => write_rice checks v p
    | 11 => write_minimal_binary v p
    | 12 => if dflt then write_zeta3 E T D v else write_zeta3_param E T t0 v
    | _ => WFail
    end.

  Definition sel_len (id p fl v : N) : option N :=
    let dflt := fl =? 4 in
    let t0 := N.testbit fl 0 in let t1 := N.testbit fl 1 in
    match id with
    | 0 => len_unary v
    | 1 => if dflt then len_gamma T D v else len_gamma_param T t0 v
    | 2 => if dflt then len_delta T D v else len_delta_param T t0 t1 v
    | 3 => len_omega v
    | 4 | 5 => bit_len_vbyte v
    | 6 => if dflt then len_zeta T D v p else len_zeta_param T t0 v p
    | 7 => len_pi v p
    | 8 => len_golomb v p
    | 9 => len_exp_golomb T D v p
    | 10 => len_rice v p
    | 11 => Some (len_minimal_binary v p)
    | 12 => if dflt then len_zeta T D v 3 else len_zeta_param T t0 v 3
    | _ => None
    end.
End CodeSel.

(* ------------------------------------------------------------------ *)
(* WORLD scenario *)
Inductive rstate := RS (s : sreader) | RB (s : breader) | RU (s : ureader).
Inductive wstate := WS (s : bits) | WB (s : bwriter).

Record wcfg := {
  c_E : endian; c_level : N; c_checks : bool; c_nocopy : bool;
  c_wW : N; c_wcap : N; c_rW : N; c_rstrict : bool; c_wcount : bool; c_rcount : bool;
  c_data : list N;
}.

Section WorldRun.
  Variable C : wcfg.
  Let E := c_E C.
  Let checks := c_checks C.
  Let rW := c_rW C.
  Let cap := if rW =? 0 then 32 else rW.
  Let D := if rW =? 0 then unbuf_params else buf_params.
  Let all_bits : bits := bits_of_bytes E (c_data C).
  (* the reader sees whole backend words: pad the data to a multiple of the word size *)
  Let rbytes : nat := N.to_nat ((if rW =? 0 then 64 else rW) / 8).
  Let padded : list N :=
    let l := List.length (c_data C) in
    let r := Nat.modulo l rbytes in
    if Nat.eqb r 0 then c_data C else c_data C ++ repeat 0 (rbytes - r).
  Let padded_bits : bits := bits_of_bytes E padded.

  Definition lift_r {A} (f : rstate -> A) (o : outcome (A * rstate)) := o.

  Definition rd_bits (n : N) (s : rstate) : outcome (N * rstate) :=
    match s with
    | RS x => omap (fun '(v, x') => (v, RS x')) (s_bits E (c_rstrict C) n x)
    | RB x => omap (fun '(v, x') => (v, RB x')) (br_read_bits E rW n x)
    | RU x => omap (fun '(v, x') => (v, RU x')) (ur_read_bits E n x)
    end.
  Definition rd_unary (s : rstate) : outcome (N * rstate) :=
    match s with
    | RS x => omap (fun '(v, x') => (v, RS x')) (s_unary (c_rstrict C) x)
    | RB x => omap (fun '(v, x') => (v, RB x')) (br_read_unary E rW x)
    | RU x => omap (fun '(v, x') => (v, RU x')) (ur_read_unary E x)
    end.
  Definition rd_peek (n : N) (s : rstate) : outcome (N * rstate) :=
    match s with
    | RS x => omap (fun '(v, x') => (v, RS x')) (s_peek E (c_rstrict C) cap n x)
    | RB x => omap (fun '(v, x') => (v, RB x')) (br_peek E rW n x)
    | RU x => omap (fun '(v, x') => (v, RU x')) (ur_peek E n x)
    end.
  Definition rd_skipap (n : N) (s : rstate) : outcome rstate :=
    match s with
    | RS x => omap RS (s_skipap (c_rstrict C) n x)
    | RB x => omap RB (br_skipap E rW n x)
    | RU x => omap RU (ur_skip n x)
    end.
  Definition rd_skip (n : N) (s : rstate) : outcome rstate :=
    match s with
    | RS x => omap RS (if rW =? 0 then s_skip false n x else s_skip (c_rstrict C) n x)
    | RB x => omap RB (br_skip_bits E rW n x)
    | RU x => omap RU (ur_skip n x)
    end.
  Definition rd_prims : rprims rstate :=
    {| p_bits := rd_bits; p_unary := rd_unary; p_peek := rd_peek; p_skipap := rd_skipap |}.

  Definition rd_pos (s : rstate) : outcome N :=
    match s with
    | RS x => Ok (sr_pos x)
    | RB x => br_bit_pos rW x
    | RU x => Ok (ur_index x)
    end.
  Definition rd_seek (p : N) (s : rstate) : outcome rstate :=
    match s with
    | RS _ =>
        let total := N.of_nat (List.length padded_bits) in
        if (negb (rW =? 0)) && c_rstrict C && (total <? p) then Err
        else Ok (RS {| sr_rest := skipn (N.to_nat p) padded_bits; sr_pos := p; sr_peeked := 0 |})
    | RB x => omap RB (br_set_bit_pos E rW p x)
    | RU x => Ok (RU {| ur_src := ur_src x; ur_index := p |})
    end.

  Definition wr_bits (v n : N) (s : wstate) : outcome (N * wstate) :=
    match s with
    | WS x => omap (fun '(r, x') => (r, WS x')) (sw_bits E checks v n x)
    | WB x => omap (fun '(r, x') => (r, WB x')) (bw_write_bits E (c_wW C) checks v n x)
    end.
  Definition wr_unary (v : N) (s : wstate) : outcome (N * wstate) :=
    match s with
    | WS x => omap (fun '(r, x') => (r, WS x')) (sw_unary v x)
    | WB x => omap (fun '(r, x') => (r, WB x')) (bw_write_unary E (c_wW C) v x)
    end.
  Definition wr_prims : wprims wstate := {| q_bits := wr_bits; q_unary := wr_unary |}.

  (* L0 flush: pad with zeros to the next word boundary; bounded sinks overflow *)
  Definition wr_flush (s : wstate) : outcome (N * wstate) :=
    match s with
    | WS x =>
        let l := N.of_nat (List.length x) in
        let pend := l mod c_wW C in
        let x' := if pend =? 0 then x else x ++ zeros (N.to_nat (c_wW C - pend)) in
        if negb (c_wcap C =? 0) && (c_wcap C * c_wW C <? N.of_nat (List.length x')) then Err
        else Ok (pend, WS x')
    | WB x => omap (fun '(r, x') => (r, WB x')) (bw_flush E (c_wW C) x)
    end.
  (* bytes delivered to the backend so far *)
  Definition wr_delivered (s : wstate) : list N :=
    match s with
    | WS x => let whole := (N.of_nat (List.length x) / c_wW C) * c_wW C in
              image E (firstn (N.to_nat whole) x)
    | WB x => bw_bytes E (c_wW C) x
    end.

  (* L0 writes overflow a bounded sink as soon as a whole word beyond it is complete *)
  Definition ws_guard (o : outcome (N * wstate)) : outcome (N * wstate) :=
    match o with
    | Ok (r, WS x) =>
        if negb (c_wcap C =? 0) && (c_wcap C <? N.of_nat (List.length x) / c_wW C) then Err else o
    | _ => o
    end.

  Definition copy_to (n : N) (r : rstate) (w : wstate) : outcome (rstate * wstate) :=
    match r with
    | RB x => if c_nocopy C then copy_default rd_prims wr_prims n r w
              else omap (fun '(x', w') => (RB x', w')) (br_copy_to E checks wr_prims rW n x w)
    | _ => copy_default rd_prims wr_prims n r w
    end.
  Definition copy_from (n : N) (r : rstate) (w : wstate) : outcome (rstate * wstate) :=
    match w with
    | WB x => if c_nocopy C then copy_default rd_prims wr_prims n r w
              else omap (fun '(r', x') => (r', WB x')) (bw_copy_from E checks rd_prims (c_wW C) n r x)
    | _ => copy_default rd_prims wr_prims n r w
    end.

  Record world := { w_r : rstate; w_rc : N; w_clone : rstate * N; w_w : wstate; w_wc : N }.

  Definition crp := count_rprims rd_prims.
  Definition cwp := count_wprims wr_prims.

  (* CountBitReader forwards the parameterless read_gamma/read_delta/read_zeta/read_zeta3 to the
     inner reader and adds the List.length function of the value *)
  Definition run_rcode (id p fl : N) (r : rstate) (c : N) : outcome (N * (rstate * N)) :=
    let T := the_tables in
    let fwd := c_rcount C && (fl =? 4) && ((id =? 1) || (id =? 2) || (id =? 12)) || (c_rcount C && (id =? 6)) in
    if fwd then
      obind (rrun rd_prims (sel_read E D id p fl) r) (fun '(v, r') =>
      match sel_len D id p 4 v with
      | Some l => Ok (v, (r', c + l))
      | None => Fail end)
    else rrun crp (sel_read E D id p fl) (r, c).

  Definition enc (o : outcome (list N)) : list N :=
    match o with Ok l => 0 :: l | Err => [1] | Fail => [2] | Fuel => [3] end.

  (* one operation: returns the output group and the new world (None = stop the case) *)
  Definition step (wd : world) (op : list N) : list N * option world :=
    let a i := nth0 op i in
    let keep_r o := match o with
                    | Ok (out, (r', c')) =>
                        (0 :: out, Some {| w_r := r'; w_rc := c'; w_clone := w_clone wd; w_w := w_w wd; w_wc := w_wc wd |})
                    | Err => ([1], None) | Fail => ([2], None) | Fuel => ([3], None) end in
    let keep_w o := match o with
                    | Ok (out, (w', c')) =>
                        (0 :: out ++ [N.of_nat (List.length (wr_delivered w'))],
                         Some {| w_r := w_r wd; w_rc := w_rc wd; w_clone := w_clone wd; w_w := w'; w_wc := c' |})
                    | Err => ([1], None) | Fail => ([2], None) | Fuel => ([3], None) end in
    match a 0%nat with
    | 1 => keep_w (omap (fun '(r, (w', c')) => ([r], (w', c')))
                    (match q_bits cwp (a 1%nat) (a 2%nat) (w_w wd, w_wc wd) with
                     | Ok (r, (w', c')) => omap (fun '(r2, w2) => (r2, (w2, c'))) (ws_guard (Ok (r, w')))
                     | Err => Err | Fail => Fail | Fuel => Fuel end))
    | 2 => keep_w (omap (fun '(r, (w', c')) => ([r], (w', c')))
                    (match q_unary cwp (a 1%nat) (w_w wd, w_wc wd) with
                     | Ok (r, (w', c')) => omap (fun '(r2, w2) => (r2, (w2, c'))) (ws_guard (Ok (r, w')))
                     | Err => Err | Fail => Fail | Fuel => Fuel end))
    | 3 => keep_w (omap (fun '(r, w') => ([r], (w', w_wc wd))) (wr_flush (w_w wd)))
    | 4 => keep_w (omap (fun '(r, (w', c')) => ([r], (w', c')))
                    (match wrun cwp (sel_write E D checks (a 1%nat) (a 2%nat) (a 3%nat) (a 4%nat)) (w_w wd, w_wc wd) with
                     | Ok (r, (w', c')) => omap (fun '(r2, w2) => (r2, (w2, c'))) (ws_guard (Ok (r, w')))
                     | Err => Err | Fail => Fail | Fuel => Fuel end))
    | 5 => keep_w (omap (fun '(r, (w', c')) => ([r], (w', c')))
                    (match wrun cwp (io_write E (tl op)) (w_w wd, w_wc wd) with
                     | Ok (r, (w', c')) => omap (fun '(r2, w2) => (r2, (w2, c'))) (ws_guard (Ok (r, w')))
                     | Err => Err | Fail => Fail | Fuel => Fuel end))
    | 10 => keep_r (omap (fun '(v, rc) => ([v], rc)) (p_bits crp (a 1%nat) (w_r wd, w_rc wd)))
    | 11 => keep_r (omap (fun '(v, rc) => ([v], rc)) (p_unary crp (w_r wd, w_rc wd)))
    | 12 => keep_r (omap (fun r' => ([], (r', w_rc wd + a 1%nat))) (rd_skip (a 1%nat) (w_r wd)))
    | 13 => keep_r (omap (fun '(v, rc) => ([v], rc)) (p_peek crp (a 1%nat) (w_r wd, w_rc wd)))
    | 14 => keep_r (omap (fun rc => ([], rc)) (p_skipap crp (a 1%nat) (w_r wd, w_rc wd)))
    | 15 => keep_r (omap (fun '(v, rc) => ([v], rc)) (run_rcode (a 1%nat) (a 2%nat) (a 3%nat) (w_r wd) (w_rc wd)))
    | 16 => keep_r (omap (fun '(l, rc) => (l, rc)) (rrun crp (io_read E (a 1%nat)) (w_r wd, w_rc wd)))
    | 17 => keep_r (omap (fun p => ([p], (w_r wd, w_rc wd))) (rd_pos (w_r wd)))
    | 18 => keep_r (omap (fun r' => ([], (r', w_rc wd))) (rd_seek (a 1%nat) (w_r wd)))
    | 19 => ([0], Some {| w_r := w_r wd; w_rc := w_rc wd; w_clone := (w_r wd, w_rc wd); w_w := w_w wd; w_wc := w_wc wd |})
    | 20 => ([0], Some {| w_r := fst (w_clone wd); w_rc := snd (w_clone wd); w_clone := (w_r wd, w_rc wd); w_w := w_w wd; w_wc := w_wc wd |})
    | 30 | 31 =>
        let o := if a 0%nat =? 30 then copy_to (a 1%nat) (w_r wd) (w_w wd) else copy_from (a 1%nat) (w_r wd) (w_w wd) in
        match o with
        | Ok (r', w') =>
            match ws_guard (Ok (0, w')) with
            | Ok _ => ([0; N.of_nat (List.length (wr_delivered w'))],
                       Some {| w_r := r'; w_rc := w_rc wd + a 1%nat; w_clone := w_clone wd; w_w := w'; w_wc := w_wc wd + a 1%nat |})
            | _ => ([1], None) end
        | Err => ([1], None) | Fail => ([2], None) | Fuel => ([3], None)
        end
    | 32 => ([0; w_wc wd], Some wd)
    | 33 => ([0; w_rc wd], Some wd)
    | _ => ([2], None)
    end.

  Fixpoint steps (wd : world) (ops : list (list N)) : list (list N) * option world :=
    match ops with
    | [] => ([], Some wd)
    | op :: r => let '(out, o) := step wd op in
                 match o with
                 | Some wd' => let '(outs, f) := steps wd' r in (out :: outs, f)
                 | None => ([out], None)
                 end
    end.

  Definition init_world : world :=
    let words := words_of_bytes E rbytes (S (List.length padded)) padded in
    let r := if c_level C =? 0 then RS (sreader_of padded_bits)
             else if rW =? 0 then RU (ur_new words (c_rstrict C))
             else RB (br_new words (c_rstrict C)) in
    let w := if c_level C =? 0 then WS []
             else WB (bw_new (if c_wcap C =? 0 then None else Some (c_wcap C)) (c_wW C)) in
    {| w_r := r; w_rc := 0; w_clone := (r, 0); w_w := w; w_wc := 0 |}.

  Definition run_world (ops : list (list N)) : list (list N) :=
    let '(outs, f) := steps init_world ops in
    match f with
    | Some wd =>
        (* group 98: the bytes once the writer is dropped / unwrapped (= flushed); group 99: before *)
        outs ++ [match wr_flush (w_w wd) with
                 | Ok (_, w') => 98 :: 0 :: wr_delivered w'
                 | _ => [98; 2] end;
                 99 :: wr_delivered (w_w wd)]
    | None => outs
    end.
End WorldRun.

(* ------------------------------------------------------------------ *)
(* pure scenarios *)
Definition variant_of (n : N) : variant :=
  match n with
  | 0 => VUnary | 1 => VGamma | 2 => VDelta | 3 => VOmega | 4 => VVByteLe | 5 => VVByteBe
  | 6 => VZeta | 7 => VPi | 8 => VGolomb | 9 => VExpGolomb | _ => VRice
  end.
Definition variant_num (v : variant) : N :=
  match v with
  | VUnary => 0 | VGamma => 1 | VDelta => 2 | VOmega => 3 | VVByteLe => 4 | VVByteBe => 5
  | VZeta => 6 | VPi => 7 | VGolomb => 8 | VExpGolomb => 9 | VRice => 10
  end.

Fixpoint string_of_bytes (l : list N) : string :=
  match l with [] => EmptyString | b :: r => String (ascii_of_N b) (string_of_bytes r) end.
Fixpoint bytes_of_string (s : string) : list N :=
  match s with EmptyString => [] | String a r => N_of_ascii a :: bytes_of_string r end.

Definition opt_enc (o : option (list N)) : list N := match o with Some l => 0 :: l | None => [2] end.

Definition run_len (checks : bool) (op : list N) : list N :=
  opt_enc (option_map (fun l => [l]) (sel_len buf_params (nth0 op 0) (nth0 op 1) (nth0 op 2) (nth0 op 3))).

Definition run_zigzag (w : N) (op : list N) : list N :=
  let wz := Z.of_N (if w =? 0 then 64 else w) in
  match nth0 op 0 with
  | 0 => (* to_int: result reported as w-bit two's complement *)
      [0; Z.to_N (to_int wz (Z.of_N (nth0 op 1)) mod 2 ^ wz)]
  | _ => let u := Z.of_N (nth0 op 1) in
         let y := if (u <? 2 ^ (wz - 1))%Z then u else (u - 2 ^ wz)%Z in
         [0; Z.to_N (to_nat wz y)]
  end.

Definition run_vbyte_io (op : list N) : list N :=
  match nth0 op 0 with
  | 0 => opt_enc (if nth0 op 1 =? 0 then vbyte_be_encode (nth0 op 2) else vbyte_le_encode (nth0 op 2))
  | _ => let src := skipn 2 op in
         match (if nth0 op 1 =? 0 then vbyte_read_be src else vbyte_read_le src) with
         | Ok (v, rest) => [0; v; N.of_nat (List.length src - List.length rest)]
         | Err => [1] | Fail => [2] | Fuel => [3]
         end
  end.

Definition penc (r : parse_result) : list N :=
  match r with
  | POk c => [0; variant_num (cvar c); cparam c]
  | PUnknown => [1] | PParseErr => [2]
  end.

Definition run_names (op : list N) : list N :=
  match nth0 op 0 with
  | 0 => match display {| cvar := variant_of (nth0 op 1); cparam := nth0 op 2 |} with
         | Some s => 0 :: bytes_of_string s
         | None => [2] end
  | 1 => penc (from_str (string_of_bytes (tl op)))
  | 2 => opt_enc (option_map (fun i => [i]) (to_code_const {| cvar := variant_of (nth0 op 1); cparam := nth0 op 2 |}))
  | 3 => match from_code_const (nth0 op 1) with
         | Some c => [0; variant_num (cvar c); cparam c] | None => [1] end
  | _ => [0; N.b2n (codes_eq {| cvar := variant_of (nth0 op 1); cparam := nth0 op 2 |}
                             {| cvar := variant_of (nth0 op 3); cparam := nth0 op 4 |})]
  end.

(* DISPATCH: op = [dkind; opk; a; b; value]; dkind 0 enum(variant a, param b) 1 const(id a)
   2 func(variant a, param b) 3 factory(variant a, param b).  write: codeword bytes of a fresh
   L0 writer; read: the direct method's codeword is decoded by the dispatcher; len *)
Definition run_dispatch (E : endian) (checks : bool) (op : list N) : list N :=
  let T := the_tables in let D := buf_params in
  let dk := nth0 op 0 in let opk := nth0 op 1 in
  let c := {| cvar := variant_of (nth0 op 2); cparam := nth0 op 3 |} in
  let v := nth0 op 4 in
  let okind := match opk with 0 => OpRead | 1 => OpWrite | _ => OpLen end in
  let target : option code := if dk =? 1 then from_code_const (nth0 op 2) else Some c in
  let call := match dk with
              | 0 | 4 => enum_call okind c       (* 4 = CodesStatsWrapper around the enum *)
              | 1 => const_call okind (nth0 op 2)
              | 2 => func_call okind c
              | 5 => Some (direct_call c)       (* the code's own method, for comparison *)
              | 6 => named_const_call okind c   (* ConstCode<{code_consts::NAME}> *)
              | _ => factory_call c end in
  match call with
  | None => [1]    (* rejected: Err from new() / panic on unknown id *)
  | Some cl =>
      match opk with
      | 1 => match wrun (swprims E checks) (call_write E T D checks cl v) [] with
             | Ok (r, bs) => 0 :: r :: image E bs
             | Err => [1] | Fail => [2] | Fuel => [3] end
      | 0 => match target with
             | None => [1]
             | Some tc =>
                 match wrun (swprims E checks) (call_write E T D checks (direct_call tc) v) [] with
                 | Ok (_, bs) =>
                     match rrun (sprims E false 64) (call_read E T D cl) (sreader_of bs) with
                     | Ok (x, s) => [0; x; sr_pos s]
                     | Err => [1] | Fail => [2] | Fuel => [3] end
                 | _ => [2] end
             end
      | _ => opt_enc (option_map (fun l => [l]) (call_len T D cl v))
      end
  end.

Definition mwop_of (op : list N) : mwop :=
  match nth0 op 0 with
  | 0 => MRead | 1 => MWrite (nth0 op 1) | 2 => MPos | 3 => MSetPos (nth0 op 1) | _ => MLen end.
Fixpoint run_memw (kind : N) (s : memw) (ops : list (list N)) : list (list N) :=
  match ops with
  | [] => [99 :: mw_data s]
  | op :: r => match mw_step kind s (mwop_of op) with
               | Ok (v, s') => [0; v] :: run_memw kind s' r
               | Err => [1] :: run_memw kind s r          (* errors leave the stream usable *)
               | Fail => [[2]] | Fuel => [[3]] end
  end.

Definition event_of (n : N) : io_event :=
  match n with 0 => Interrupted | 1 => HardErr | _ => Accept (n - 2) end.

Fixpoint run_adapter_write (W : N) (sched : list io_event) (ws : list N) (sink : list N) : list (list N) :=
  match ws with
  | [] => [99 :: sink]
  | w :: r => match adapter_write_word W sched w sink with
              | (Ok sink', sched', _) => [0] :: run_adapter_write W sched' r sink'
              | (_, _, sink') => [[1]; 99 :: sink']
              end
  end.
Fixpoint run_adapter_read (W : N) (cnt : nat) (sched : list io_event) (src : list N) : list (list N) :=
  match cnt with
  | O => []
  | S c => match adapter_read_word W sched src with
           | (Ok w, sched', src') => [0; w] :: run_adapter_read W c sched' src'
           | _ => [[1]]
           end
  end.

Fixpoint run_stats (cur : stats) (parts : list stats) (ops : list (list N)) : list (list N) :=
  match ops with
  | [] => []
  | op :: r =>
      match nth0 op 0 with
      | 0 => match update cur (nth0 op 1) with
             | Some s => run_stats s parts r | None => [[2]] end
      | 1 => match update_many cur (nth0 op 1) (nth0 op 2) with
             | Some s => run_stats s parts r | None => [[2]] end
      | 2 => run_stats stats_default (parts ++ [cur]) r
      | 3 => match fold_left (fun acc p => match acc with Some a => stats_add a p | None => None end)
                             (parts ++ [cur]) (Some stats_default) with
             | Some s => run_stats s [] r | None => [[2]] end
      | _ => let '(c, cost) := best_code cur in
             (0 :: stats_flat cur) :: [0; variant_num (cvar c); cparam c; cost] :: run_stats cur parts r
      end
  end.

(* synthetic monotone step function: f(x) = base + number of steps <= x *)
Definition step_fn (base : N) (steps : list N) (x : N) : N :=
  base + N.of_nat (List.length (filter (fun s => s <=? x) steps)).

Definition run_fcp (hdr : list N) (data : list N) : list (list N) :=
  let maxit := N.to_nat (nth0 hdr 1) in
  let f : N -> N :=
    match nth0 hdr 2 with
    | 0 => fun x => match sel_len buf_params (nth0 hdr 3) (nth0 hdr 4) 4 x with Some l => l | None => U64MAX end
    | _ => step_fn (nth0 hdr 3) data
    end in
  match fcp_collect f maxit fcp_new [] with
  | Ok l => [0 :: flat_map (fun '(a, b) => [a; b]) l]
  | Err => [[1]] | Fail => [[2]] | Fuel => [[3]]
  end.

(* published definitions: op = [code id; param; value] -> [0; number of bits; image bytes] *)
Definition run_def (E : endian) (op : list N) : list N :=
  let p := nth0 op 1 in let v := nth0 op 2 in
  let o : option bits :=
    match nth0 op 0 with
    | 0 => Some (unary v)
    | 1 => Some (def_gamma E v)
    | 2 => Some (def_delta E v)
    | 3 => Some (def_omega E v)
    | 4 => Some (def_vbyte E false v)
    | 5 => Some (def_vbyte E true v)
    | 6 => Some (def_zeta E p v)
    | 7 => Some (def_pi E p v)
    | 8 => Some (def_golomb E p v)
    | 9 => Some (def_exp_golomb E p v)
    | 10 => Some (def_rice E p v)
    | 11 => Some (def_minimal_binary E v p)
    | 12 => Some (def_zeta E 3 v)
    | _ => None
    end in
  match o with
  | Some bs => 0 :: N.of_nat (List.length bs) :: image E bs
  | None => [2]
  end.

(* ------------------------------------------------------------------ *)
(* flags = [level; checks; no_copy_impls];  groups = header :: data :: ops *)
Definition run_case (flags : list N) (groups : list (list N)) : list (list N) :=
  let hdr := hd [] groups in
  let data := hd [] (tl groups) in
  let ops := tl (tl groups) in
  let checks := bool_of (nth0 flags 1) in
  match nth0 hdr 0 with
  | 1 => run_world {| c_E := endian_of (nth0 hdr 1); c_level := nth0 flags 0; c_checks := checks;
                      c_nocopy := bool_of (nth0 flags 2);
                      c_wW := nth0 hdr 2; c_wcap := nth0 hdr 3; c_rW := nth0 hdr 4;
                      c_rstrict := bool_of (nth0 hdr 5); c_wcount := bool_of (nth0 hdr 6);
                      c_rcount := bool_of (nth0 hdr 7); c_data := data |} ops
  | 2 => map (run_len checks) ops
  | 3 => map (run_zigzag (nth0 hdr 1)) ops
  | 4 => map run_vbyte_io ops
  | 5 => map run_names ops
  | 6 => map (run_dispatch (endian_of (nth0 hdr 1)) checks) ops
  | 7 => run_memw (nth0 hdr 1) {| mw_data := data; mw_pos := 0 |} ops
  | 8 => if nth0 hdr 2 =? 0
         then run_adapter_write (nth0 hdr 1) (map event_of data) (hd [] ops) []
         else if nth0 hdr 2 =? 2
         then cursor_case (nth0 hdr 1) data ops     (* the adapter over a seekable in-memory byte cursor *)
         else run_adapter_read (nth0 hdr 1) (N.to_nat (nth0 hdr 3)) (map event_of data) (hd [] ops)
  | 9 => run_stats stats_default [] ops
  | 10 => run_fcp hdr data
  | 12 => map (run_def (endian_of (nth0 hdr 1))) ops
  | _ => [[2]]
  end.
