(* main.ml — driver for the extracted Coq model: reads one case per line
   (groups separated by ';', numbers in hex), runs Model.run_case, prints the result groups
   in the same format.  Usage: model_driver LEVEL CHECKS NOCOPY < cases > results *)


let rec pos_of_string (s : string) (i : int) (acc : Model.positive option) : Model.positive option =
  (* s is a binary string, most significant first *)
  if i >= String.length s then acc
  else
    let c = s.[i] in
    let acc' =
      match acc, c with
      | None, '0' -> None
      | None, _ -> Some Model.XH
      | Some p, '0' -> Some (Model.XO p)
      | Some p, _ -> Some (Model.XI p)
    in
    pos_of_string s (i + 1) acc'

let bin_of_hex (h : string) : string =
  let b = Buffer.create (4 * String.length h) in
  String.iter
    (fun c ->
      let v =
        match c with
        | '0' .. '9' -> Char.code c - 48
        | 'a' .. 'f' -> Char.code c - 87
        | 'A' .. 'F' -> Char.code c - 55
        | _ -> failwith ("bad hex digit in " ^ h)
      in
      for k = 3 downto 0 do
        Buffer.add_char b (if (v lsr k) land 1 = 1 then '1' else '0')
      done)
    h;
  Buffer.contents b

let n_of_hex (h : string) : Model.n =
  match pos_of_string (bin_of_hex h) 0 None with None -> Model.N0 | Some p -> Model.Npos p

let hex_of_n (x : Model.n) : string =
  match x with
  | Model.N0 -> "0"
  | Model.Npos p ->
      (* collect bits least significant first *)
      let rec bits p acc =
        match p with Model.XH -> 1 :: acc | Model.XO q -> bits q (0 :: acc) | Model.XI q -> bits q (1 :: acc)
      in
      (* bits returns most significant first because we cons while descending *)
      let rec lsb p = match p with Model.XH -> [ 1 ] | Model.XO q -> 0 :: lsb q | Model.XI q -> 1 :: lsb q in
      ignore bits;
      let l = Array.of_list (lsb p) in
      let nb = Array.length l in
      let nd = (nb + 3) / 4 in
      let buf = Bytes.make nd '0' in
      for d = 0 to nd - 1 do
        let v = ref 0 in
        for k = 0 to 3 do
          let i = (4 * d) + k in
          if i < nb && l.(i) = 1 then v := !v lor (1 lsl k)
        done;
        Bytes.set buf (nd - 1 - d) "0123456789abcdef".[!v]
      done;
      Bytes.to_string buf

let parse_group (g : string) : Model.n list =
  String.split_on_char ' ' g |> List.filter (fun t -> t <> "") |> List.map n_of_hex

let () =
  let arg i = if Array.length Sys.argv > i then n_of_hex Sys.argv.(i) else Model.N0 in
  let flags = [ arg 1; arg 2; arg 3 ] in
  let out = Buffer.create 65536 in
  (try
     while true do
       let line = input_line stdin in
       if String.length line > 0 && line.[0] <> '#' then begin
         let groups = String.split_on_char ';' line |> List.map parse_group in
         let res = Model.run_case flags groups in
         let strs = List.map (fun g -> String.concat " " (List.map hex_of_n g)) res in
         Buffer.add_string out (String.concat ";" strs);
         Buffer.add_char out '\n';
         if Buffer.length out > 60000 then begin
           print_string (Buffer.contents out);
           Buffer.clear out
         end
       end
     done
   with End_of_file -> ());
  print_string (Buffer.contents out)
