"""Infrastructure of bin/check: builds, audits, parallel execution, comparison, evidence."""
import fcntl
import hashlib
import json
import os
import re
import subprocess
import sys
import time
from concurrent.futures import ThreadPoolExecutor

ROOT = os.path.abspath(os.path.join(os.path.dirname(os.path.abspath(__file__)), ".."))
BUILD = os.path.join(ROOT, "build")
COQ = os.path.join(ROOT, "coq")
REPO = os.environ.get("VERIF_REPO", "/repo")
NPROC = int(os.environ.get("VERIF_JOBS", "16"))
UNKNOWN = 0xFFFFFFFF
ENV = dict(os.environ, CARGO_NET_OFFLINE="true", CARGO_TARGET_DIR=os.path.join(BUILD, "target"))

ALLOWED_AXIOMS = set()   # the development is axiom-free; anything reported is an audit failure


def log(msg):
    print("[check] " + msg, flush=True)


class Lock:
    def __init__(self, name):
        os.makedirs(BUILD, exist_ok=True)
        self.path = os.path.join(BUILD, "." + name + ".lock")

    def __enter__(self):
        self.f = open(self.path, "w")
        fcntl.flock(self.f, fcntl.LOCK_EX)
        return self

    def __exit__(self, *a):
        fcntl.flock(self.f, fcntl.LOCK_UN)
        self.f.close()


def sh(cmd, cwd=None, timeout=3600, env=None):
    p = subprocess.run(cmd, cwd=cwd, shell=isinstance(cmd, str), stdout=subprocess.PIPE,
                       stderr=subprocess.STDOUT, timeout=timeout, env=env or ENV)
    return p.returncode, p.stdout.decode("utf-8", "replace")


# ------------------------------------------------------------------------------ translator
def translate():
    rc, out = sh([sys.executable, os.path.join(ROOT, "translate", "translate.py")])
    status = {}
    for m in re.finditer(r"translate: (\S+) ok=(\w+) changed=(\w+) ?(.*)", out):
        status[m.group(1)] = {"ok": m.group(2) == "True", "changed": m.group(3) == "True", "reason": m.group(4).strip()}
    if rc != 0 or len(status) < 4:
        status["_error"] = out[-2000:]
    return status


# ------------------------------------------------------------------------------ Coq
def coq_makefile():
    mk = os.path.join(COQ, "Makefile")
    cp = os.path.join(COQ, "_CoqProject")
    if not os.path.exists(mk) or os.path.getmtime(mk) < os.path.getmtime(cp):
        sh("coq_makefile -f _CoqProject -o Makefile", cwd=COQ)


def coq_make(target, timeout=3000):
    """full .vo build of one target (and what it depends on); returns (ok, log)"""
    with Lock("coq"):
        coq_makefile()
        rc, out = sh("timeout %d make -j%d %s" % (timeout, NPROC, target), cwd=COQ, timeout=timeout + 60)
    return rc == 0, out


FORBIDDEN = re.compile(r"\b(Admitted|admit|Axiom|Axioms|Parameter|Parameters|Conjecture|Conjectures|Admit Obligations)\b|Unset\s+Guard|bypass_check|Unset\s+Positivity|Unset\s+Universe|type-in-type|impredicative-set|native_compute")


def strip_coq_comments(s):
    out = []
    depth = 0
    i = 0
    while i < len(s):
        if s.startswith("(*", i):
            depth += 1
            i += 2
        elif s.startswith("*)", i) and depth > 0:
            depth -= 1
            i += 2
        else:
            if depth == 0:
                out.append(s[i])
            i += 1
    return "".join(out)


def coq_audit_sources():
    """grep the whole development (comments stripped) for forbidden commands"""
    bad = []
    for d in ("theories", "props", "gen", "extract"):
        p = os.path.join(COQ, d)
        if not os.path.isdir(p):
            continue
        for fn in sorted(os.listdir(p)):
            if not fn.endswith(".v"):
                continue
            src = strip_coq_comments(open(os.path.join(p, fn), encoding="utf-8").read())
            # Variable/Hypothesis outside a section
            depth = 0
            for ln, line in enumerate(src.split("\n"), 1):
                if re.match(r"\s*Section\b", line):
                    depth += 1
                elif re.match(r"\s*End\b", line) and depth > 0:
                    depth -= 1
                elif depth == 0 and re.match(r"\s*(Variable|Variables|Hypothesis|Hypotheses|Context)\b", line):
                    bad.append("%s/%s:%d: %s outside a section" % (d, fn, ln, line.strip()[:40]))
                m = FORBIDDEN.search(line)
                if m:
                    bad.append("%s/%s:%d: forbidden `%s`" % (d, fn, ln, m.group(0)))
    return bad


PROP_FILES = {
    "C02": ["C02", "C02u", "C00w"], "C07": ["C07", "C07u"], "C09": ["C09", "C09u", "C09t", "C09tm", "C09s"], "C16": ["C16", "C16b"],
    "C12": ["C12", "C12m"], "C14": ["C14", "C14m"], "C11": ["C11", "C11c"],
    "C17": ["C17", "C17s"], "C18": ["C18", "C18b"], "C20": ["C20", "C20b"], "C03": ["C03", "C03e"],
}


def coq_property(prop):
    """(re)compile the props file(s) of a property; merge their theorems and Print Assumptions"""
    res = {"obligations": [], "discharged": [], "axioms": {}, "ok": True, "log_tail": "", "failed_at": None}
    for f in PROP_FILES.get(prop, [prop]):
        if not os.path.exists(os.path.join(COQ, "props", f + ".v")):
            continue
        r = coq_property_file(f)
        res["obligations"] += r["obligations"]
        res["discharged"] += r["discharged"]
        res["axioms"].update(r["axioms"])
        res["ok"] = res["ok"] and r["ok"]
        if not r["ok"]:
            res["log_tail"] += r["log_tail"]
            res["failed_at"] = res["failed_at"] or r["failed_at"]
    if not res["obligations"]:
        res["ok"] = False
        res["log_tail"] = "no props file for %s" % prop
    return res


def coq_property_file(prop):
    """(re)compile props/<prop>.v, parse its theorems, pins and Print Assumptions output"""
    res = {"obligations": [], "discharged": [], "axioms": {}, "ok": False, "log_tail": "", "failed_at": None}
    pf = os.path.join(COQ, "props", prop + ".v")
    if not os.path.exists(pf):
        res["log_tail"] = "props/%s.v does not exist" % prop
        return res
    src = open(pf, encoding="utf-8").read()
    plain = strip_coq_comments(src)
    thms = re.findall(r"^\s*Theorem\s+(\w+)", plain, flags=re.M)
    res["obligations"] = thms
    for fn in (prop + ".vo", prop + ".glob", prop + ".vok", prop + ".vos"):
        try:
            os.remove(os.path.join(COQ, "props", fn))
        except FileNotFoundError:
            pass
    ok, out = coq_make("props/%s.vo" % prop)
    res["log_tail"] = out[-3000:]
    # Print Assumptions blocks appear in order of the theorems that were reached
    blocks = re.findall(r"(Closed under the global context|Axioms:\n(?:.+\n?)+?(?=\n\S|\Z))", out)
    printed = re.findall(r"^\s*Print Assumptions\s+(\w+)", plain, flags=re.M)
    for name, blk in zip(printed, blocks):
        if blk.startswith("Closed"):
            res["axioms"][name] = []
        else:
            axs = [l.split(":")[0].strip() for l in blk.split("\n")[1:] if l and not l.startswith(" ")]
            res["axioms"][name] = axs
    if ok:
        for t in thms:
            if t in res["axioms"] and all(a in ALLOWED_AXIOMS for a in res["axioms"][t]):
                res["discharged"].append(t)
        res["ok"] = len(res["discharged"]) == len(thms) and len(thms) > 0
    else:
        m = re.search(r'File "\./([^"]+)", line (\d+)', out)
        if m:
            res["failed_at"] = "%s:%s" % (m.group(1), m.group(2))
            if m.group(1) == "props/%s.v" % prop:
                line = int(m.group(2))
                upto = "\n".join(src.split("\n")[: line - 1])
                done = re.findall(r"^\s*Theorem\s+(\w+)", strip_coq_comments(upto), flags=re.M)
                res["discharged"] = [t for t in done[:-1] if t in res["axioms"] and not res["axioms"][t]]
    return res


# ------------------------------------------------------------------------------ model driver
def build_driver():
    """extract the model and compile the OCaml driver when any .vo of the model is newer"""
    ddir = os.path.join(BUILD, "driver")
    exe = os.path.join(ddir, "model_driver")
    with Lock("driver"):
        ok, out = coq_make("theories/Run.vo")
        if not ok:
            return None, out
        run_vo = os.path.join(COQ, "theories", "Run.vo")
        main_ml = os.path.join(ROOT, "model_driver", "main.ml")
        ext_v = os.path.join(COQ, "extract", "Extract.v")
        newest = max(os.path.getmtime(p) for p in (run_vo, main_ml, ext_v))
        if os.path.exists(exe) and os.path.getmtime(exe) >= newest:
            return exe, ""
        os.makedirs(ddir, exist_ok=True)
        rc, out = sh("coqc -Q ../theories DSI -Q ../gen DSI.Gen Extract.v", cwd=os.path.join(COQ, "extract"), timeout=600)
        if rc != 0:
            return None, out
        for fn in ("model.ml", "model.mli"):
            os.replace(os.path.join(COQ, "extract", fn), os.path.join(ddir, fn))
        sh(["cp", main_ml, ddir])
        rc, out2 = sh("ocamlfind ocamlopt -O2 -w -a model.mli model.ml main.ml -o model_driver", cwd=ddir, timeout=600)
        if rc != 0:
            return None, out + out2
        return exe, ""


# ------------------------------------------------------------------------------ harness
def build_harness(profile="debug", features=()):
    """build the harness against /repo's working tree; returns the binary path"""
    hdir = os.path.join(ROOT, "harness")
    feats = ",".join(sorted(features))
    name = "%s-%s" % (profile, feats.replace(",", "+") or "default")
    outdir = os.path.join(BUILD, "bin")
    os.makedirs(outdir, exist_ok=True)
    dst = os.path.join(outdir, "harness-" + name)
    with Lock("cargo"):
        lock = os.path.join(hdir, "Cargo.lock")
        if not os.path.exists(lock):
            sh(["cp", os.path.join(REPO, "Cargo.lock"), lock])
        cmd = ["cargo", "build", "--offline", "--quiet"]
        if profile == "release":
            cmd.append("--release")
        if feats:
            cmd += ["--features", feats]
        rc, out = sh(cmd, cwd=hdir, timeout=3000)
        if rc != 0:
            return None, out
        src = os.path.join(BUILD, "target", "release" if profile == "release" else "debug", "verif-harness")
        sh(["cp", "-f", src, dst])
    return dst, ""


def probe_diagnostics(binary):
    """which tables (0 gamma, 1 delta, 2 zeta3) does the library flag at construction of each reader kind"""
    p = subprocess.run([binary, "--probe-diagnostics"], stdout=subprocess.PIPE, stderr=subprocess.PIPE)
    cur = None
    flagged = {}
    for line in p.stderr.decode("utf-8", "replace").split("\n"):
        m = re.match(r"PROBE (\w+) (BEGIN|END)", line)
        if m:
            cur = m.group(1) if m.group(2) == "BEGIN" else None
            if cur:
                flagged[cur] = set()
        elif cur and "DANGER" in line:
            for t, ch in ((0, "\u03b3"), (1, "\u03b4"), (2, "\u03b6")):
                if ch in line:
                    flagged[cur].add(t)
    return flagged


# ------------------------------------------------------------------------------ execution
def _run_shard(args):
    cmd, lines = args
    if not lines:
        return []
    p = subprocess.run(cmd, input=("\n".join(lines) + "\n").encode(), stdout=subprocess.PIPE, stderr=subprocess.DEVNULL)
    out = p.stdout.decode().split("\n")
    if out and out[-1] == "":
        out.pop()
    if len(out) != len(lines):
        # a crashed process: mark what is missing
        out = out + ["ff"] * (len(lines) - len(out))
    return out


def run_parallel(cmd, lines):
    n = len(lines)
    if n == 0:
        return []
    shards = min(NPROC, max(1, n // 50))
    size = (n + shards - 1) // shards
    parts = [lines[i:i + size] for i in range(0, n, size)]
    with ThreadPoolExecutor(max_workers=len(parts)) as ex:
        res = list(ex.map(_run_shard, [(cmd, p) for p in parts]))
    out = []
    for r in res:
        out.extend(r)
    return out


def parse_result(line):
    return [[int(t, 16) for t in g.split()] for g in line.split(";")]


def run_rust(binary, cases, timeout_ms=10000):
    lines = [c.line() for c in cases]
    # an address-space limit keeps a runaway allocation of a broken implementation from taking the machine down
    cmd = ["bash", "-c", "ulimit -v 12000000; exec %s --timeout-ms %d" % (binary, timeout_ms)]
    return [parse_result(l) for l in run_parallel(cmd, lines)]


def run_model(driver, cases, level, checks=False, nocopy=False):
    lines = [c.line() for c in cases]
    # extracted list functions are not tail recursive: give the driver an unlimited stack
    cmd = ["bash", "-c", "ulimit -s unlimited 2>/dev/null || ulimit -s 1000000; ulimit -v 6000000; exec %s %x %d %d" % (driver, level, 1 if checks else 0, 1 if nocopy else 0)]
    return [parse_result(l) for l in run_parallel(cmd, lines)]


def compare_case(case, rust, model, stop_at_err=True):
    """None if the observable behaviour agrees, else a description.  Nothing after the first
    Err/Fail of a case is compared; a model Fail/Fuel (out of the modelled domain) ends the
    comparison unless the case demands an exact panic."""
    if rust == [[3]]:
        # the whole case timed out in the implementation: legitimate only where the model diverges too
        if any(mg and mg[0] == 3 for mg in model):
            return None
        return "implementation did not terminate; model %r" % (model[:4],)
    for i, mg in enumerate(model):
        if not mg:
            continue
        st = mg[0]
        rg = rust[i] if i < len(rust) else None
        if st in (2, 3):
            if case.fail_exact and st == 2:
                if rg is None or not rg or rg[0] != 2:
                    return "op %d: model panics (checks) but implementation returned %r" % (i, rg)
            return None
        if rg is None or not rg:
            return "op %d: implementation produced no result, model %r" % (i, mg)
        if st == 98:
            # bytes after the writer was dropped / unwrapped; compared only where the model's flush succeeds
            if len(mg) > 1 and mg[1] == 0:
                if rg[0] != 98 or len(rg) < 2 or rg[1] != 0:
                    return "dropping/unwrapping the writer failed: impl %r" % (rg[:4],)
                mb, rb = mg[2:], rg[2:]
                if case.wbackend == 1:
                    if rb[:len(mb)] != mb or any(rb[len(mb):]):
                        return "image after drop/into_inner differs: impl %r model %r" % (rb, mb)
                elif rb != mb:
                    return "image after drop/into_inner differs: impl %s model %s" % (" ".join("%02x" % x for x in rb), " ".join("%02x" % x for x in mb))
            continue
        if st == 99:
            if rg[0] != 99:
                return "final image missing: %r" % (rg,)
            mb, rb = mg[1:], rg[1:]
            if case.wbackend == 1:
                if rb[:len(mb)] != mb or any(rb[len(mb):]):
                    return "final image differs: impl %r model %r" % (rb, mb)
            elif rb != mb:
                return "final image differs: impl %s model %s" % (" ".join("%02x" % x for x in rb), " ".join("%02x" % x for x in mb))
            continue
        if rg[0] != st:
            return "op %d: status impl %d model %d (impl %r model %r)" % (i, rg[0], st, rg, mg)
        if st == 1:
            if stop_at_err:
                return None
            continue
        if len(rg) != len(mg):
            return "op %d: result shape impl %r model %r" % (i, rg, mg)
        for j in range(1, len(mg)):
            if rg[j] == UNKNOWN and j == len(mg) - 1:
                continue
            if rg[j] != mg[j]:
                return "op %d: impl %r model %r" % (i, [hex(x) for x in rg], [hex(x) for x in mg])
    if len(rust) > len(model) and model and model[-1] and model[-1][0] == 0:
        return "implementation produced %d result groups, model %d" % (len(rust), len(model))
    return None


def model_defined(model):
    for mg in model:
        if mg and mg[0] in (2, 3):
            return False
    return True


# ------------------------------------------------------------------------------ evidence / verdicts
class Verdict:
    def __init__(self, prop, tier, seed):
        self.prop = prop
        self.tier = tier
        self.seed = seed
        self.t0 = time.time()
        self.violations = []        # (description, replay dict, has_failing_input)
        self.known = []
        self.cov = {"evaluations": 0, "distinct_nontrivial": 0, "traces_validated_against_impl": 0,
                    "samples": [], "distribution": {}, "model_undefined": 0}
        self.assumptions = []
        self.notes = []

    def count(self, cases, tag_extra=""):
        d = self.cov["distribution"]
        for c in cases:
            k = c.tag + tag_extra
            d[k] = d.get(k, 0) + 1

    def violation(self, desc, replay, has_input):
        self.violations.append((desc, replay, has_input))


def load_known_findings():
    out = []
    p = os.path.join(ROOT, "known_findings.txt")
    if os.path.exists(p):
        for line in open(p, encoding="utf-8"):
            line = line.strip()
            m = re.match(r"finding:\s+property=(\w+)\s+key=(\S+)\s+(.*)", line)
            if m:
                out.append((m.group(1), m.group(2), m.group(3)))
    return out


def write_replay(prop, payload):
    d = os.path.join(ROOT, "evidence", "replay")
    os.makedirs(d, exist_ok=True)
    h = hashlib.sha1(json.dumps(payload, sort_keys=True).encode()).hexdigest()[:12]
    p = os.path.join(d, "%s-%s.json" % (prop, h))
    with open(p, "w") as f:
        json.dump(payload, f, indent=1)
    return p


TRUSTED_BASE = [
    "Coq 8.16.1 kernel and its vm_compute machine (finite table/dispatch sweeps); no native_compute",
    "axioms: none (every Print Assumptions must report `Closed under the global context`)",
    "translate/translate.py renders Rust tables, constants and match arms into coq/gen/*.v; refuses unrecognised shapes",
    "extraction with ExtrOcamlBasic only (no Extract Constant/Inductive of our own) + model_driver/main.ml: used only to run the model in the correspondence check",
    "correspondence check (harness/ + casegen/ + checklib/): differential testing of the hand-written L1/L2/L3 models against the real crate",
    "modelled, not verified: Rust integer/shift semantics, common_traits casts, to_be/to_le, rotate, leading/trailing_zeros, std::io contracts, trait resolution, cfg selection, Mutex atomicity",
]


def finish(v, coq, tstatus, checker_cmd):
    os.makedirs(os.path.join(ROOT, "evidence"), exist_ok=True)
    known = load_known_findings()
    real = []
    for desc, replay, has_input in v.violations:
        key = replay.get("class_key", "")
        k = [kf for kf in known if kf[0] == v.prop and key and re.fullmatch(kf[1], key)]
        if k:
            print("KNOWN-FINDING: property=%s %s" % (v.prop, k[0][2]))
            v.known.append(k[0][2])
            continue
        real.append((desc, replay, has_input))
    cov = v.cov
    cov["obligations"] = max(1, len(coq["obligations"]))
    cov["discharged"] = len(coq["discharged"])
    cov["obligation_names"] = coq["obligations"]
    cov["discharged_names"] = coq["discharged"]
    cov["print_assumptions"] = coq["axioms"]
    cov["checker_cmd"] = checker_cmd
    cov["trusted_base"] = TRUSTED_BASE
    cov["translator"] = tstatus
    cov["rule"] = cov.get("rule", "")
    if not cov["samples"]:
        cov["samples"] = ["(no correspondence cases for this run)"]
    ev = {"property_id": v.prop, "tier": v.tier, "seed": v.seed, "level": "proof", "coverage": cov,
          "assumptions": v.assumptions + v.notes, "wall_s": round(time.time() - v.t0, 2), "violations": len(real)}
    if v.known:
        ev["known_findings"] = v.known
    with open(os.path.join(ROOT, "evidence", v.prop + ".json"), "w") as f:
        json.dump(ev, f, indent=1)
    for desc, replay, has_input in real:
        path = write_replay(v.prop, replay)
        log("violation: " + desc)
        print("VIOLATION property=%s replay=%s%s" % (v.prop, path, "" if has_input else " no-failing-input-found"), flush=True)
    if real:
        return 1
    log("%s %s: ok (%d theorems, %d cases, %.1fs)" % (v.prop, v.tier, len(coq["discharged"]), cov["evaluations"], time.time() - v.t0))
    return 0


def run_check(prop, tier, seed, replay, skip_coq=False):
    from checklib import props
    if prop not in props.REGISTRY:
        print("unknown property " + prop)
        return 2
    v = Verdict(prop, tier, seed)
    tstatus = translate()
    if replay:
        return props.replay(prop, replay, v)
    # --- Coq side
    if skip_coq:
        coq = {"obligations": ["(skipped)"], "discharged": ["(skipped)"], "axioms": {}, "ok": True, "log_tail": "", "failed_at": None}
    else:
        coq = coq_property(prop)
        bad = coq_audit_sources()
        if bad:
            coq["ok"] = False
            coq["discharged"] = []
            coq["log_tail"] += "\nAUDIT: " + "; ".join(bad[:10])
        if tier == "thorough" and coq["ok"]:
            # independent re-check of the compiled files with coqchk (lists the axioms they rely on)
            mods = ["DSI.Props." + f for f in PROP_FILES.get(prop, [prop]) if os.path.exists(os.path.join(COQ, "props", f + ".vo"))]
            rc, out = sh("timeout 3000 coqchk -o -silent -Q theories DSI -Q gen DSI.Gen -Q props DSI.Props " + " ".join(mods), cwd=COQ, timeout=3100)
            v.notes.append("coqchk: rc=%d %s" % (rc, " | ".join(l.strip() for l in out.strip().split("\n")[-6:])))
            if rc != 0 or "Axioms: <none>" not in out.replace("\n", " "):
                if rc != 0:
                    coq["ok"] = False
                    coq["log_tail"] += "\ncoqchk failed: " + out[-1500:]
    # --- correspondence side
    driver, dlog = build_driver()
    if driver is None:
        v.violation("the executable model does not build", {"kind": "model-build", "log": dlog[-3000:]}, False)
        return finish(v, coq, tstatus, "make props/%s.vo" % prop)
    tok = all(st.get("ok", True) for st in tstatus.values() if isinstance(st, dict)) and "_error" not in tstatus
    ctx = props.Ctx(v, driver, tier, seed, translator_ok=tok)
    props.REGISTRY[prop](ctx)
    # --- verdict for the Coq side (a broken proof is reported after the search for an input)
    refused = [k for k, s in tstatus.items() if isinstance(s, dict) and not s.get("ok", True)]
    if not coq["ok"]:
        missing = [t for t in coq["obligations"] if t not in coq["discharged"]]
        has_input = any(h for _, _, h in v.violations)
        if not has_input:
            v.violation("theorem(s) no longer check: %s (%s)%s" % (", ".join(missing) or prop, coq.get("failed_at"),
                                                                   "; translator refused " + ",".join(refused) if refused else ""),
                        {"kind": "broken-proof", "theorems": missing, "failed_at": coq.get("failed_at"),
                         "translator": tstatus, "log_tail": coq["log_tail"][-2500:]}, False)
    return finish(v, coq, tstatus, "cd coq && coq_makefile -f _CoqProject -o Makefile && make props/%s.vo  (Coq 8.16.1, full .vo build; Print Assumptions parsed from the log)" % prop)
