"""Per-property correspondence runs (the differential half of each check)."""
import itertools
import json
import os
import random

from casegen import gen
from casegen.gen import Case, world_hdr, U64
from checklib import core

QUICK_BUILDS = [("debug", ()), ("release", ())]
ALL_FEATURES = [(), ("checks",), ("no_copy_impls",), ("checks", "no_copy_impls")]


class Ctx:
    def __init__(self, v, driver, tier, seed, translator_ok=True):
        self.translator_ok = translator_ok
        self.v = v
        self.driver = driver
        self.tier = tier
        self.seed = seed
        self.rng = random.Random(seed)
        self._bins = {}
        self.nontrivial = set()
        self.max_report = 3

    def harness(self, profile="debug", features=()):
        key = (profile, tuple(sorted(features)))
        if key not in self._bins:
            b, out = core.build_harness(profile, features)
            if b is None:
                self.v.violation("the harness does not build against /repo (%s %s)" % key,
                                 {"kind": "harness-build", "log": out[-3000:]}, False)
            self._bins[key] = b
        return self._bins[key]

    def sample(self, cases, k=3):
        if len(self.v.cov["samples"]) < 6:
            for c in cases[:k]:
                self.v.cov["samples"].append({"tag": c.tag, "case": c.line()[:400]})

    # ---------------------------------------------------------------- generic differential run
    def corr(self, cases, builds=None, what="", oracle=None, levels=None):
        """run `cases` on the real crate (each build) and on the model; report disagreements.
        oracle(case, rust_groups) -> None | description : the property's own oracle on the
        implementation (independent of the model)."""
        v = self.v
        if not cases:
            return []
        builds = builds or QUICK_BUILDS
        self.sample(cases)
        v.count(cases)
        first_rust = None
        for (profile, features) in builds:
            binary = self.harness(profile, features)
            if binary is None:
                return []
            checks = "checks" in features
            nocopy = "no_copy_impls" in features
            import time as _t
            t0 = _t.time()
            rust = core.run_rust(binary, cases)
            t1 = _t.time()
            ntimeout = sum(1 for r in rust if r == [[3]])
            if first_rust is None:
                first_rust = rust
            lv = levels if levels is not None else sorted({l for c in cases for l in c.levels})
            models = {l: core.run_model(self.driver, cases, l, checks, nocopy) for l in lv}
            core.log("%s: %d cases, %s %s: impl %.1fs (%d timeouts), models %.1fs" % (what, len(cases), profile, "+".join(features) or "default", t1 - t0, ntimeout, _t.time() - t1))
            v.cov["evaluations"] += len(cases)
            bad = []
            for i, c in enumerate(cases):
                msgs = {}
                for l in c.levels:
                    if l in models:
                        m = core.compare_case(c, rust[i], models[l][i])
                        if m:
                            msgs[l] = m
                    if l in models and not core.model_defined(models[l][i]):
                        v.cov["model_undefined"] += 1
                omsg = oracle(c, rust[i]) if oracle else None
                if msgs or omsg:
                    bad.append((i, msgs, omsg))
                else:
                    v.cov["traces_validated_against_impl"] += 1
                    if len(c.groups) > 2 or len(c.groups[0]) > 2:
                        self.nontrivial.add(hash(c.line()))
            v.cov["distinct_nontrivial"] = len(self.nontrivial)
            for (i, msgs, omsg) in bad[: self.max_report]:
                c = cases[i]
                # the L0 model (canonical layout / published semantics) is the property's oracle;
                # a disagreement with the L2 machine alone is a broken correspondence
                # the python oracle and the L0 model state the property itself; for single-level
                # (pure) scenarios the model is the specification
                has_input = bool(omsg) or (0 in msgs) or (len(c.levels) == 1 and bool(msgs))
                if not self.translator_ok and not omsg and c.levels == (2,):
                    # the generated part of the model is missing (translator refusal): a disagreement with
                    # it is a broken tie, not a failing input of the property
                    has_input = False
                desc = "%s [%s %s] %s: %s" % (what or c.tag, profile, "+".join(features) or "default", c.tag,
                                              omsg or msgs.get(0) or msgs.get(2))
                small = self.minimize(c, binary, checks, nocopy, oracle)
                v.violation(desc, {"kind": "disagreement" if has_input else "correspondence-broken",
                                   "property": v.prop, "profile": profile, "features": list(features),
                                   "case": small.line(), "tag": c.tag, "class_key": c.tag,
                                   "fail_exact": c.fail_exact, "levels": list(c.levels), "wbackend": c.wbackend,
                                   "messages": {str(k): m for k, m in msgs.items()}, "oracle": omsg,
                                   "impl_result": ";".join(" ".join("%x" % x for x in g) for g in rust[i])[:2000]},
                            has_input)
            if bad:
                v.notes.append("%d disagreeing cases in %s (%s %s)" % (len(bad), what, profile, "+".join(features)))
        return first_rust

    # ---------------------------------------------------------------- continuing after an error
    def corr_after_error(self, cases, fails, what="", oracle=None, builds=None, model_cases=None):
        """cases whose header asks the harness to go on after an error (cont=1); fails[i] = indices (among
        the operations) that must return an error.  A failed operation must behave as if it had not been
        issued: the models (which stop at the first error) are run on the history WITHOUT the failed
        operations and their results are compared with the implementation's results for the remaining ones."""
        v = self.v
        if not cases:
            return
        self.sample(cases)
        v.count(cases)
        reduced = []
        for j, (c, f) in enumerate(zip(cases, fails)):
            # model_cases[j] = (header, data) the models should see instead (e.g. a ragged byte stream cut to whole words)
            hdr, mdata = (model_cases[j] if model_cases else (list(c.groups[0][:11]), c.groups[1]))
            ops = [g for k, g in enumerate(c.groups[2:]) if k not in f]
            reduced.append(Case([list(hdr)[:11], mdata] + ops, c.tag, c.fail_exact, c.levels, c.wbackend))
        for (profile, features) in (builds or QUICK_BUILDS):
            binary = self.harness(profile, features)
            if binary is None:
                return
            checks = "checks" in features
            nocopy = "no_copy_impls" in features
            rust = core.run_rust(binary, cases)
            lv = sorted({l for c in cases for l in c.levels})
            models = {l: core.run_model(self.driver, reduced, l, checks, nocopy) for l in lv}
            core.log("%s: %d cases (continuing after errors), %s %s" % (what, len(cases), profile, "+".join(features) or "default"))
            v.cov["evaluations"] += len(cases)
            nbad = 0
            for i, (c, f) in enumerate(zip(cases, fails)):
                msg = None
                level = None
                nops = len(c.groups) - 2
                for k in sorted(f):
                    if k >= len(rust[i]) or rust[i][k] != [1]:
                        msg = "op %d must report an error (it needs bits beyond the end) but returned %r" % (k, rust[i][k] if k < len(rust[i]) else None)
                        level = 0
                        break
                if msg is None:
                    for l in c.levels:
                        m = list(models[l][i])
                        exp = []
                        it = iter(m)
                        for k in range(nops):
                            exp.append([1] if k in f else next(it, []))
                        exp += list(it)
                        mm = core.compare_case(c, rust[i], exp, stop_at_err=False)
                        if mm:
                            msg = "after the failed operation(s) %s: %s" % (sorted(f), mm)
                            level = l
                            break
                if msg is None and oracle:
                    msg = oracle(c, rust[i])
                    level = 0
                if msg is None:
                    v.cov["traces_validated_against_impl"] += 1
                    self.nontrivial.add(hash(c.line()))
                    continue
                nbad += 1
                if nbad <= self.max_report:
                    v.violation("%s [%s %s] %s: %s" % (what, profile, "+".join(features) or "default", c.tag, msg),
                                {"kind": "disagreement", "property": v.prop, "profile": profile, "features": list(features),
                                 "case": c.line(), "reduced_case": reduced[i].line(), "expected_errors": sorted(f), "tag": c.tag,
                                 "class_key": c.tag, "levels": list(c.levels), "wbackend": c.wbackend, "after_error": True,
                                 "impl_result": ";".join(" ".join("%x" % x for x in g) for g in rust[i])[:2000]},
                                level == 0 or self.translator_ok)
            v.cov["distinct_nontrivial"] = len(self.nontrivial)

    def minimize(self, case, binary, checks, nocopy, oracle):
        """greedy removal of operations while the disagreement persists"""
        import time as _t
        t_start = _t.time()

        def failing(c):
            if _t.time() - t_start > 40:
                raise TimeoutError()
            r = core.run_rust(binary, [c], timeout_ms=3000)[0]
            for l in c.levels:
                m = core.run_model(self.driver, [c], l, checks, nocopy)[0]
                if core.compare_case(c, r, m):
                    return True
            return bool(oracle and oracle(c, r))
        cur = case
        if len(case.groups) <= 3 or case.groups[0][0] != 1:
            return cur
        budget = 60
        i = len(cur.groups) - 1
        while i >= 2 and budget > 0:
            cand = Case(cur.groups[:i] + cur.groups[i + 1:], cur.tag, cur.fail_exact, cur.levels, cur.wbackend)
            budget -= 1
            try:
                if failing(cand):
                    cur = cand
            except Exception:
                break
            i -= 1
        return cur


# =============================================================================== C01
def check_C01(ctx):
    ctx.v.cov["rule"] = ("grid: word size x endianness x buffer fill level x next operation (write_bits n=0..64 x value "
                         "patterns incl. dirty high bits; write_unary 0..3W+2; flush/double flush) + random histories over "
                         "the four backend kinds, the writer ending by drop or into_inner with or without pending bits; delivered byte count after every operation, the final image and the image once the writer is gone are compared "
                         "with the L2 machine and with the canonical L0 layout; non-trivial = distinct case with >= 1 operation "
                         "on which the model is defined")
    # (the staging byte sink, backend 4, belongs to C11: flush propagation through the adapter)
    cases = [c for c in gen.gen_C01(ctx.rng, ctx.tier) if c.groups[0][8] != 4]
    ctx.corr(cases, what="C01 writer image")


# =============================================================================== C02 / C07
def check_C02(ctx):
    ctx.v.cov["rule"] = ("grid: reader kind x endianness x buffer fill level (incl. > W after a look-ahead) x next operation x "
                         "data pattern x backend, each followed by a continuation read; random histories; values compared with "
                         "the L2 machines and the L0 bit-list reader")
    ctx.corr(gen.gen_C02(ctx.rng, ctx.tier), what="C02 reader values")


def check_C07(ctx):
    ctx.v.cov["rule"] = ("C02 grid with bit_pos() after every step, plus every seek target 0..=len followed by each kind of "
                         "operation, memory and Cursor backends")
    ctx.corr(gen.gen_C07(ctx.rng, ctx.tier), what="C07 positions")
    # byte streams whose length is not a multiple of the word size, through the adapter: the ragged tail cannot be
    # read (error); after that error a seek still addresses the right bit and positions are reported exactly
    rng = ctx.rng
    cases, fails, mcs = [], [], []
    for E in (0, 1):
        for rW in (16, 32, 64, 0):
            Wb = rW if rW else 64
            wb = Wb // 8
            for nwords in (1, 2, 3):
                for extra in sorted(set([1, wb // 2, wb - 1])):
                    if not (0 < extra < wb):
                        continue
                    whole = nwords * Wb
                    for _ in range(3 if ctx.tier == "quick" else 12):
                        data = [rng.randrange(256) for _ in range(nwords * wb + extra)]
                        p0 = rng.randrange(whole - Wb + 1, whole + 1) if rng.random() < 0.7 else whole
                        pre = []
                        left = p0
                        while left > 0:
                            q = min(left, 59)
                            pre.append([10, q]); left -= q
                        need = whole - p0 + 1
                        if need > 64:
                            continue
                        bad = [[10, min(64, need + rng.randrange(0, 8))]]
                        post = []
                        for _ in range(3):
                            q = rng.randrange(0, whole)
                            post += [[18, q], [17], [10, min(whole - q, rng.randrange(1, 30))], [17]]
                            if rng.random() < 0.4 and whole - q >= 12:
                                post += [[18, q], [13, min(Wb if rW else 32, 12)], [10, 3], [17]]
                        ops = pre + bad + post
                        cases.append(Case([world_hdr(E, rW=rW, rstrict=1, rbackend=4, cont=1), data] + ops, "ragged-adapter/W%d" % rW))
                        fails.append({len(pre)})
                        mcs.append((world_hdr(E, rW=rW, rstrict=1, rbackend=3), data[: nwords * wb]))
    ctx.corr_after_error(cases, fails, what="C07 seeks after an error at a ragged tail", model_cases=mcs)


# =============================================================================== codes (C03, C04, C05, C06, C09)
def bits_to_bytes(E, bits):
    out = []
    for i in range(0, len(bits), 8):
        chunk = bits[i:i + 8] + [0] * (8 - len(bits[i:i + 8]))
        b = 0
        for j, bit in enumerate(chunk):
            if bit:
                b |= (1 << (7 - j)) if E == 0 else (1 << j)
        out.append(b)
    return out


def field_bits(E, v, n):
    return [(v >> (n - 1 - i)) & 1 for i in range(n)] if E == 0 else [(v >> i) & 1 for i in range(n)]


def write_phase(ctx, items, what):
    """items: list of dict(E, wW, off, cid, p, wfl, v).  Returns list of (item, bytes, ret) for those
    written without error, after comparing the writes three-way."""
    cases = []
    for it in items:
        ops = []
        left = it["off"]
        it["prefix"] = []
        while left > 0:
            k = min(left, 57)
            val = ctx.rng.getrandbits(k)
            ops.append([1, val, k])
            it["prefix"].append(k)
            left -= k
        ops.append([4, it["cid"], it["p"], it["wfl"], it["v"]])
        ops.append([4, 1, 0, 0, 5])           # sentinel: gamma(5) without tables
        ops.append([3])
        cases.append(Case([world_hdr(it["E"], wW=it["wW"], wbackend=it.get("wb", 0)), []] + ops,
                          "write/code%d" % it["cid"]))
    rust = ctx.corr(cases, what=what + " (write)")
    out = []
    for it, c, r in zip(items, cases, rust or []):
        if r and r[-1] and r[-1][0] == 99:
            nops = len(c.groups) - 2
            ret = r[nops - 3][1]
            out.append((it, r[-1][1:], ret))
    return out


def read_phase(ctx, written, what, tables_pairs=False):
    cases = []
    meta = []
    for it, data, ret in written:
        E = it["E"]
        rW = it["rW"]
        strict = it["strict"]
        rb = it.get("rb", 0)
        ops = [[10, k] for k in it["prefix"]]
        Wb_ = it["rW"] if it["rW"] else 64
        if it["off"] > 0 and ctx.rng.random() < (0.7 if it["off"] % Wb_ == 0 else 0.2):
            # a used reader (some unread bits buffered) is positioned by a seek instead of by sequential reads
            ops = [[10, ctx.rng.randrange(1, 12)], [18, it["off"]]]
        it["npre"] = len(ops)
        ops.append([17])
        ops.append([15, it["cid"], it["p"], it["rfl"]])
        ops.append([17])
        ops.append([15, 1, 0, 0])
        ops.append([17])
        cases.append(Case([world_hdr(E, rW=rW, rstrict=strict, rbackend=rb), list(data)] + ops, "read/code%d/W%d" % (it["cid"], rW)))
        meta.append((it, ret))
    idx = {id(c): m for c, m in zip(cases, meta)}

    def oracle(c, r):
        it, ret = idx[id(c)]
        n = it["npre"]
        if len(r) < n + 5 or any(g[0] != 0 for g in r[: n + 5]):
            # u8 readers cannot serve 9+ bit tables; the model marks those Fail and the comparison skips them
            return None if (it["rW"] == 8 and it["rfl"] != 0) else "round trip failed: %r" % (r[n:n + 5],)
        pos0, val, pos1, sent, pos2 = r[n][1], r[n + 1][1], r[n + 2][1], r[n + 3][1], r[n + 4][1]
        if val != it["v"]:
            return "decoded %d, written %d" % (val, it["v"])
        if sent != 5:
            return "sentinel decoded %d" % sent
        if pos1 - pos0 != ret:
            return "read consumed %d bits, write returned %d" % (pos1 - pos0, ret)
        if pos0 != it["off"]:
            return "position before the code %d, expected %d" % (pos0, it["off"])
        return None
    ctx.corr(cases, what=what + " (read)", oracle=oracle)
    return cases


def code_items(ctx, dense):
    rng = ctx.rng
    items = []
    for (cid, p) in gen.code_params(rng, ctx.tier):
        vals = gen.values_for(rng, cid, p, ctx.tier)
        if not dense and len(vals) > 60:
            vals = sorted(set(rng.sample(vals, 60)) | set(vals[:8]) | set(vals[-4:]))
        for v in vals:
            E = rng.randrange(2)
            wW = rng.choice(gen.WORDS_W)
            rW = rng.choice(gen.WORDS_R)
            Wb = rW if rW else 64
            wfl = rng.choice(gen.flag_options(cid))
            rfl = rng.choice(gen.flag_options(cid))
            if rW == 8 and rfl in (1, 2, 3):
                rfl = 0      # a u8 reader prints the look-ahead diagnostic for every table: outside C05's claim
            if rW == 8 and rfl == 4 and cid in (2, 12):
                rW = 16
                Wb = 16
            strict = rng.randrange(2)
            rb = rng.choice([0, 0, 2, 3]) if strict else 0
            off = rng.randrange(0, 2 * Wb + 2) if rng.random() < 0.8 else rng.choice([Wb, 2 * Wb])
            items.append(dict(E=E, wW=wW, rW=rW, off=off, cid=cid, p=p, wfl=wfl, rfl=rfl, v=v,
                              strict=strict, rb=rb, wb=rng.choice([0, 2, 3])))
    return items


def check_C03(ctx):
    ctx.v.cov["rule"] = ("codes x parameters x value grid (small, 2^i-1/2^i/2^i+1, maxima, random) x random offset 0..2W+1 x "
                         "endianness x writer word x reader word/kind x backend x table options; write, then read back with a "
                         "sentinel gamma code following; oracle: value, sentinel, end position; three-way with L0/L2 models")
    items = code_items(ctx, dense=(ctx.tier != "quick"))
    written = write_phase(ctx, items, "C03 round trip")
    read_phase(ctx, written, "C03 round trip")
    # table reads stop exactly at the end of the codeword whatever follows: every decoding-table index
    cases, oracle = table_sweep(ctx, 1)
    ctx.corr(cases, what="C03 table reads, every index", oracle=oracle)


def check_C06(ctx):
    ctx.v.cov["rule"] = ("length functions (direct, with/without tables, default) vs model on the value grid and all step points; "
                         "write return value = bits appended = bits consumed by the read (position delta) = len")
    rng = ctx.rng
    cases = []
    for (cid, p) in gen.code_params(rng, ctx.tier):
        vals = gen.values_for(rng, cid, p, ctx.tier)
        if cid in (0, 8, 10, 7):
            vals = gen.boundary_values(rng, 6, gen.code_maxv(cid)) if cid != 0 else vals   # len needs no write
            if cid == 11:
                vals = [v for v in vals if v < p]
        ops = []
        for v in vals:
            for fl in gen.flag_options(cid) + ([4] if 4 not in gen.flag_options(cid) else []):
                ops.append([cid, p, fl, v])
        for i in range(0, len(ops), 200):
            cases.append(Case([[2], []] + ops[i:i + 200], "len/code%d" % cid, levels=(2,)))
    lens = ctx.corr(cases, what="C06 len functions")
    # every point where a length function steps: enumerate the change points with the MODEL's
    # change-point iterator, then evaluate the implementation around each of them
    fc = [Case([[10, 140, 0, cid, p], []], "fcp", levels=(2,)) for (cid, p) in gen.code_params(rng, ctx.tier) if cid != 11]
    fres = core.run_model(ctx.driver, fc, 2)
    scases = []
    for c, r in zip(fc, fres):
        cid, p = c.groups[0][3], c.groups[0][4]
        if not r or not r[0] or r[0][0] != 0:
            continue
        cps = r[0][1::2]
        ops = []
        for x in cps:
            for d in (-2, -1, 0, 1):
                v = x + d
                if 0 <= v <= gen.code_maxv(cid):
                    for fl in gen.flag_options(cid) + ([4] if 4 not in gen.flag_options(cid) else []):
                        ops.append([cid, p, fl, v])
        for i in range(0, len(ops), 300):
            scases.append(Case([[2], []] + ops[i:i + 300], "len-steps/code%d" % cid, levels=(2,)))
    ctx.corr(scases, what="C06 len at every step point")
    # len == written == consumed, cross-checked on the implementation
    items = code_items(ctx, dense=False)
    written = write_phase(ctx, items, "C06 len=written")
    lcases = [Case([[2], [], [it["cid"], it["p"], 4 if it["cid"] in (1, 2, 6, 12) else 0, it["v"]]], "len-cross", levels=(2,)) for it, _, _ in written]
    binary = ctx.harness("debug", ())
    if binary:
        res = core.run_rust(binary, lcases)
        for (it, data, ret), r in zip(written, res):
            if r and r[0] and r[0][0] == 0 and r[0][1] != ret:
                ctx.v.violation("len function %d != bits written %d for code %d param %d value %d" % (r[0][1], ret, it["cid"], it["p"], it["v"]),
                                {"kind": "disagreement", "class_key": "len-cross", "item": {k: it[k] for k in ("cid", "p", "v", "wfl", "E")}}, True)
                break
    read_phase(ctx, written, "C06 written=consumed")
    # bits consumed by a table read = bits consumed bit by bit (= len, by the phases above): every table index
    cases, oracle = table_sweep(ctx, 1)
    ctx.corr(cases, what="C06 consumed by table reads, every index", oracle=oracle)
    # every way of asking for a length (the enum, ConstCode by name, FuncCodeLen) vs the bits the code's own
    # method writes, for every published code (parameters up to 10)
    vals = [0, 1, 2, 3, 4, 5, 6, 7, 8, 9, 10, 15, 16, 24, 25, 31, 32, 33, 34, 35, 43, 63, 64, 96, 97, 100, 127, 128, 255, 256, 1000, 1023, 1024, 4095, 65535, 65536]
    vals += [rng.randrange(1 << 20) for _ in range(6)]
    dcases = []
    for E in (0, 1):
        ops = []
        for var in range(11):
            for p_ in ([0] if var < 6 else range(0, 11)):
                if var in (6, 8) and p_ == 0:
                    continue
                for v in vals:
                    if var == 0 and v > 5000:
                        continue
                    if var == 10 and (v >> p_) > 5000:
                        continue
                    if var == 8 and v // p_ > 5000:
                        continue
                    ops.append([5, 1, var, p_, v])
                    for dk in (0, 2, 6):
                        ops.append([dk, 2, var, p_, v])
        for i in range(0, len(ops), 160):
            dcases.append(Case([[6, E], []] + ops[i:i + 160], "len-entry-points/E%d" % E, levels=(2,)))

    def oracle_len(c, r):
        wrote = None
        for op, g in zip(c.groups[2:], r):
            if op[0] == 5:
                wrote = g[1] if g and g[0] == 0 else None
            elif wrote is not None and g and g[0] == 0 and g[1] != wrote:
                return "length asked through dispatcher kind %d is %d but the code's own write appended %d bits (variant %d param %d value %d)" % (op[0], g[1], wrote, op[2], op[3], op[4])
        return None
    ctx.corr(dcases, what="C06 length through every entry point", oracle=oracle_len)


def table_sweep(ctx, reps):
    """every index of every decoding table embedded at a random buffer fill state and word size, decoded with
    the table and (on a clone) without; returns (cases, oracle)"""
    rng = ctx.rng
    cases = []
    tabs = [(1, 9), (2, 11), (12, 12)]
    # the property covers every reader whose construction printed no diagnostic for the table
    flagged = core.probe_diagnostics(ctx.harness("debug", ())) if ctx.harness("debug", ()) else {}
    names = {8: "u8", 16: "u16", 32: "u32", 64: "u64", 0: "unbuffered"}
    ctx.v.cov["diagnostics"] = {k: sorted(v) for k, v in flagged.items()}
    tnum = {1: 0, 2: 1, 12: 2}
    for cid, rb in tabs:
        eligible = [w for w in (8, 16, 32, 64, 0) if tnum[cid] not in flagged.get(names[w], {0, 1, 2})]
        for E in (0, 1):
            for idx in range(1 << rb):
                for _ in range(reps):
                    rW = rng.choice(eligible)
                    Wb = rW if rW else 64
                    off = rng.randrange(0, 2 * Wb)
                    pre = [rng.getrandbits(1) for _ in range(off)]
                    tail = [rng.getrandbits(1) for _ in range(64 + 2 * Wb)]
                    bits = pre + field_bits(E, idx, rb) + tail
                    data = bits_to_bytes(E, bits)
                    ops = []
                    left = off
                    while left > 0:
                        k = min(left, 61)
                        ops.append([10, k]); left -= k
                    fl_t = 1 if cid != 2 else rng.choice([1, 3])
                    ops += [[19], [15, cid, 0, fl_t], [17], [20], [15, cid, 0, 0], [17]]
                    cases.append(Case([world_hdr(E, rW=rW, rstrict=0), data] + ops, "decode-table/code%d" % cid))

    def oracle(c, r):
        # table read (on the live reader) and non-table read (on the clone) must agree
        k = len(c.groups) - 2
        if len(r) < k or any(g[0] != 0 for g in r[:k]):
            return None     # one of the reads failed (garbage pattern); the model comparison covers it
        tv, tp, nv, np_ = r[k - 5][1], r[k - 4][1], r[k - 2][1], r[k - 1][1]
        if (tv, tp) != (nv, np_):
            return "table read (%d, pos %d) != bit-by-bit read (%d, pos %d)" % (tv, tp, nv, np_)
        return None
    return cases, oracle


def check_C05(ctx):
    ctx.v.cov["rule"] = ("every index of every decoding table (2^9+2^11+2^12 patterns, BE and LE) embedded at a random buffer "
                         "fill state and word size, decoded with the table and (on a clone) without; every entry of the "
                         "encoding/length tables and values around each table boundary; strict backends with the code in "
                         "the last word; table result = non-table result = model")
    rng = ctx.rng
    reps = 1 if ctx.tier == "quick" else 4
    cases, oracle = table_sweep(ctx, reps)
    ctx.corr(cases, what="C05 decode tables", oracle=oracle)
    # encoding tables: every entry and the boundary, all flag combinations, vs no-table bytes
    items = []
    for cid, wmax in ((1, 64 + 8), (2, 1024 + 8), (12, 1024 + 8)):
        for v in range(0, wmax):
            for wfl in gen.flag_options(cid):
                E = rng.randrange(2)
                rW = rng.choice([16, 32, 64, 0])
                Wb = rW if rW else 64
                items.append(dict(E=E, wW=rng.choice(gen.WORDS_W), rW=rW, off=rng.randrange(0, 2 * Wb + 2), cid=cid, p=0,
                                  wfl=wfl, rfl=rng.choice(gen.flag_options(cid)), v=v, strict=1, rb=rng.choice([0, 2, 3]),
                                  wb=0))
    written = write_phase(ctx, items, "C05 encode tables")
    # group by (cid, v, E, off): bytes must not depend on the table option
    seen = {}
    for it, data, ret in written:
        pass
    read_phase(ctx, written, "C05 strict tail")
    # all-tables-off bytes vs table bytes at offset 0
    wcases = []
    for cid, wmax in ((1, 72), (2, 1032), (12, 1032)):
        for E in (0, 1):
            for v in range(wmax):
                ops = [[4, cid, 0, fl, v] for fl in gen.flag_options(cid)]
                wcases.append(Case([world_hdr(E, wW=64, wbackend=3), []] + ops, "encode-table/code%d" % cid))

    def woracle(c, r):
        oks = [g for g in r if g and g[0] == 0]
        if len(oks) != len(c.groups) - 2:
            return "a table write failed: %r" % (r,)
        if len({g[1] for g in oks}) != 1:
            return "reported lengths differ across table options: %r" % ([g[1] for g in oks],)
        return None
    ctx.corr(wcases, what="C05 write lengths", oracle=woracle)


def check_C09(ctx):
    ctx.v.cov["rule"] = ("valid streams of mixed codes, truncated after every backend word; strict memory / vector read back / "
                         "Cursor adapter vs zero-extended; every code decoded in order until the first error; oracle: items "
                         "entirely before the cut decode to the written values, the item crossing the cut errs (strict)")
    rng = ctx.rng
    n_streams = 40 if ctx.tier == "quick" else 400
    wcases = []
    metas = []
    for _ in range(n_streams):
        E = rng.randrange(2)
        items = []
        for _ in range(rng.randrange(3, 25)):
            cid, p = rng.choice([(1, 0), (1, 0), (2, 0), (3, 0), (12, 0), (6, 2), (6, 5), (7, 2), (9, 3), (10, 3), (8, 7), (4, 0), (5, 0), (0, 0), (13, 0)])
            if cid == 13:
                n = rng.randrange(1, 65)
                items.append(("bits", n, rng.getrandbits(n)))
            else:
                v = rng.choice([rng.randrange(8), rng.randrange(300), rng.getrandbits(rng.randrange(1, 40))])
                if not gen.writable(cid, p, v):
                    v = rng.randrange(50)
                items.append(("code", cid, p, v))
        ops = []
        for itm in items:
            if itm[0] == "bits":
                ops.append([1, itm[2], itm[1]])
            else:
                ops.append([4, itm[1], itm[2], rng.choice(gen.flag_options(itm[1])), itm[3]])
        ops.append([3])
        wcases.append(Case([world_hdr(E, wW=64, wbackend=0), []] + ops, "stream/write"))
        metas.append((E, items))
    rust = ctx.corr(wcases, what="C09 stream (write)")
    rcases = []
    rmeta = []
    for (E, items), c, r in zip(metas, wcases, rust or []):
        if not r or r[-1][0] != 99:
            continue
        data = r[-1][1:]
        lens = [g[1] for g in r[:len(items)]]
        ends = list(itertools.accumulate(lens))
        total = ends[-1]
        for rW in gen.WORDS_R:
            Wb = rW if rW else 64
            nwords = (total + Wb - 1) // Wb
            cuts = range(0, nwords + 1) if ctx.tier != "quick" else sorted(set([0, 1, nwords // 2, nwords - 1, nwords]))
            for cut in cuts:
                if cut < 0:
                    continue
                dbytes = list(data[: cut * Wb // 8])
                for strict, rb in ((1, 0), (1, rng.choice([2, 3])), (0, 0)):
                    ops = []
                    for ii, itm in enumerate(items):
                        if not strict and ends[ii] > cut * Wb:
                            # zero-extended: a fixed-width read across the end sees zeros and never fails;
                            # a unary scan into the zero tail would never return
                            ops.append([10, 64])
                            break
                        if itm[0] == "bits":
                            ops.append([10, itm[1]])
                        else:
                            fl = rng.choice(gen.flag_options(itm[1]))
                            if rW == 8 and fl != 0:
                                fl = 0 if itm[1] != 12 or True else fl
                            if rW == 8 and itm[1] in (2, 12) and fl == 4:
                                fl = 0
                            ops.append([15, itm[1], itm[2], fl])
                    cs = Case([world_hdr(E, rW=rW, rstrict=strict, rbackend=rb), dbytes] + ops, "truncated/W%d/strict%d" % (rW, strict))
                    rcases.append(cs)
                    rmeta.append((items, ends, cut * Wb, strict))
    idx = {id(c): m for c, m in zip(rcases, rmeta)}

    def oracle(c, r):
        items, ends, avail, strict = idx[id(c)]
        for i, itm in enumerate(items):
            if i >= len(r):
                return "result missing for item %d" % i
            g = r[i]
            want = itm[2] if itm[0] == "bits" else itm[3]
            if ends[i] <= avail:
                if g[0] != 0 or g[1] != want:
                    return "item %d lies within the data (ends at bit %d of %d) but read gave %r, written %d" % (i, ends[i], avail, g, want)
            else:
                if not strict:
                    if g[0] != 0:
                        return "zero-extended read across the end failed: %r" % (g,)
                    return None
                if strict:
                    if g[0] == 0:
                        # the item needs bits beyond the cut: a strict backend must not fabricate them,
                        # unless the missing part is not needed (cannot happen: every bit of a codeword is needed)
                        return "item %d crosses the end of the data (ends at %d, %d available) but decoded to %r" % (i, ends[i], avail, g)
                    return None
                else:
                    return None
        return None
    ctx.corr(rcases, what="C09 truncated streams", oracle=oracle)
    # the tail after a failed attempt: the reader stands k bits before the end of a strict stream (inside the last
    # word, backend exhausted); an operation that needs more than k bits reports an error, and the k bits that lie
    # entirely within the data are still delivered afterwards, with the right position
    tcases, tfails = [], []
    for E in (0, 1):
        for rW in gen.WORDS_R:
            Wb = rW if rW else 64
            for rb in (0, 2, 3):
                for nwords in (1, 2, 3):
                    T = nwords * Wb
                    rems = sorted(set([1, 2, Wb // 2, Wb - 2, Wb - 1, 7, 8, 9] + [rng.randrange(1, Wb) for _ in range(2)]))
                    for rem in rems:
                        if not (0 < rem < Wb):
                            continue
                        p_ = T - rem
                        data = [rng.randrange(256) for _ in range(T // 8)]
                        if rng.random() < 0.3:
                            data = [255] * (T // 8)
                        pre = []
                        left = p_
                        while left > 0:
                            k = min(left, 57)
                            pre.append([10, k]); left -= k
                        if p_ > 0 and rng.random() < 0.4:
                            pre = [[12, p_]]
                        for kind in range(4):
                            if kind == 0:
                                bad = [[10, min(64, rem + rng.choice([1, 1, Wb // 2, Wb]))]]
                            elif kind == 1:
                                n = min(Wb if rW else 32, rem + 1 + rng.randrange(Wb))
                                if n <= rem:
                                    continue
                                bad = [[13, n]]
                            elif kind == 2:
                                bad = [[10, min(64, rem + 1)], [13, min(Wb if rW else 32, rem + 1)]] if rem + 1 <= (Wb if rW else 32) else [[10, min(64, rem + 1)]]
                            else:
                                bad = [[16, rem // 8 + 1]]
                            if any(o[0] == 10 and o[1] <= rem for o in bad):
                                continue
                            post = [[17], [10, min(rem, 64)], [17]] if rem <= 64 else [[17]]
                            ops = pre + bad + post
                            tcases.append(Case([world_hdr(E, rW=rW, rstrict=1, rbackend=rb, cont=1), data] + ops, "tail-after-error/W%d/rb%d" % (rW, rb)))
                            tfails.append(set(range(len(pre), len(pre) + len(bad))))
    ctx.corr_after_error(tcases, tfails, what="C09 tail after a failed read")


# =============================================================================== C08
def check_C08(ctx):
    ctx.v.cov["rule"] = ("n in 0..several words x source buffer fill (incl. > W after a look-ahead) x destination fill x data "
                         "pattern x copy_to/copy_from x continuation (reads, peeks, table reads, writes, second copy), reader "
                         "word u8..u64/unbuffered x writer word u8..u128; with and without the optimised paths (feature "
                         "no_copy_impls); final image and every continuation value compared with L2 and L0 models")
    rng = ctx.rng
    cases = []
    n_each = 6 if ctx.tier == "quick" else 40
    for E in (0, 1):
        for rW in gen.WORDS_R:
            Wb = rW if rW else 64
            for wW in gen.WORDS_W:
                fills = gen.levels_for(2 * Wb, rng, 8)
                for fill in (fills if ctx.tier != "quick" else rng.sample(fills, min(len(fills), 7))):
                    pre_r = gen.reader_fill_prefix(rW, fill, rng)
                    for _ in range(n_each if ctx.tier != "quick" else 4):
                        used = rng.randrange(wW)
                        pre_w = gen.fill_prefix_w(wW, used)
                        n = rng.choice([0, 1, rng.randrange(2 * Wb), fill, fill + 1, max(0, fill - 1), Wb, wW, rng.randrange(5 * max(Wb, wW)), 64, 65, 128, 129])
                        pname, data = rng.choice(gen.patterns(rng, 8 * max(Wb, wW) // 8 * 4 + 64))
                        op = rng.choice([30, 31])
                        conts = [[10, 13], [13, min(Wb if rW else 32, 9)], [15, 1, 0, 1], [1, 0x2A5, 10], [op, rng.randrange(3 * Wb)], [10, 64], [15, 2, 0, 3], [2, 3], [3]]
                        rng.shuffle(conts)
                        conts = [c for c in conts if not (rW == 8 and c[0] == 15)]
                        ops = pre_r + pre_w + [[op, n]] + conts[:5] + [[3]]
                        # unary scans over zero data followed by a zero-extended tail never return
                        rstrict = 0 if pname in ("random", "ones") else 1
                        cases.append(Case([world_hdr(E, wW=wW, rW=rW, rstrict=rstrict, wbackend=3), data] + ops,
                                          "%s/%s/r%d/w%d" % ("copy_to" if op == 30 else "copy_from", pname, rW, wW)))
    # copies that end EXACTLY at the end of a strict (finite) stream: all n bits exist, so the copy succeeds, the next
    # bit does not, and the optimised paths agree with the generic one
    for E in (0, 1):
        for rW in gen.WORDS_R:
            Wb = rW if rW else 64
            for rb in (0, 2, 3):
                for wW in (gen.WORDS_W if ctx.tier != "quick" else rng.sample(gen.WORDS_W, 2)):
                    for nwords in (1, 2, 3, 5):
                        T = nwords * Wb
                        for k in sorted(set([0, 1, Wb // 2, Wb - 1, Wb, Wb + 3, rng.randrange(T)])):
                            if k >= T:
                                continue
                            data = [rng.randrange(256) for _ in range(T // 8)]
                            pre = []
                            left = k
                            while left > 0:
                                q = min(left, 61)
                                pre.append([10, q]); left -= q
                            if k and rng.random() < 0.3:
                                pre.append([13, 1])      # a look-ahead first: more than a word may be buffered
                            op = rng.choice([30, 31])
                            ops = pre + gen.fill_prefix_w(wW, rng.randrange(wW)) + [[op, T - k], [17], [10, 1]]
                            cases.append(Case([world_hdr(E, wW=wW, rW=rW, rstrict=1, rbackend=rb, wbackend=3), data] + ops,
                                              "%s-to-exact-end/r%d/w%d" % ("copy_to" if op == 30 else "copy_from", rW, wW)))
    builds = [("debug", ()), ("release", ()), ("debug", ("no_copy_impls",))]
    if ctx.tier != "quick":
        builds += [("release", ("no_copy_impls",)), ("debug", ("checks",)), ("debug", ("checks", "no_copy_impls"))]
    ctx.corr(cases, builds=builds, what="C08 bulk copy")
    # continuations made only of look-ahead (table) reads over a VALID stream of short codes, so that
    # consecutive peek refills follow the copy without any slow-path read in between
    wcases = []
    for E in (0, 1):
        for kind in range(3):
            ops = []
            for _ in range(700):
                v = rng.randrange(0, 12) if rng.random() < 0.9 else rng.randrange(0, 300)
                ops.append([4, [1, 2, 12][kind], 0, 0, v])
            ops.append([3])
            wcases.append(Case([world_hdr(E, wW=64, wbackend=0), []] + ops, "copy-stream/write"))
    wr = ctx.corr(wcases, what="C08 code stream (write)")
    ccases = []
    for c, r in zip(wcases, wr or []):
        if not r or r[-1][0] != 99:
            continue
        E = c.groups[0][1]
        cid = c.groups[2][1]
        data = r[-1][1:]
        for rW in (16, 32, 64, 0):
            Wb = rW if rW else 64
            for _ in range(12 if ctx.tier == "quick" else 80):
                fill = rng.randrange(2 * Wb if rW else 64)
                wW = rng.choice(gen.WORDS_W)
                n = rng.choice([rng.randrange(1, 4 * Wb), fill + 1, fill + Wb, fill + Wb + 1, Wb, 2 * Wb + 1, 129, 64, 65])
                op = rng.choice([30, 30, 31])
                fl = 1 if cid != 2 else rng.choice([1, 2, 3, 4])
                cont = [[15, cid, 0, fl]] * rng.randrange(3, 40)
                ops = gen.reader_fill_prefix(rW, fill, rng) + gen.fill_prefix_w(wW, rng.randrange(wW)) + [[op, n]] + cont + [[17], [op, rng.randrange(1, 100)], [15, cid, 0, fl], [3]]
                ccases.append(Case([world_hdr(E, wW=wW, rW=rW, rstrict=1, wbackend=3), list(data)] + ops,
                                   "copy-then-table-reads/r%d/code%d" % (rW, cid)))
    ctx.corr(ccases, builds=builds, what="C08 copy then table reads")


# =============================================================================== C12
def check_C12(ctx):
    ctx.v.cov["rule"] = ("byte slices of length 0..=40 (+ longer random) written through io::Write / read through io::Read at every "
                         "starting bit offset 0..=2W (sampled in quick), interleaved with bit operations; writer u8..u128, reader "
                         "u8..u64/unbuffered; bytes, counts and final image vs L2/L0 models")
    rng = ctx.rng
    cases = []
    for E in (0, 1):
        for wW in gen.WORDS_W:
            offs = range(0, 2 * wW + 1) if ctx.tier != "quick" else sorted(set([0, 1, 7, 8, 9, wW - 1, wW, wW + 1, 2 * wW] + [rng.randrange(2 * wW + 1) for _ in range(4)]))
            for off in offs:
                lens = range(0, 41) if ctx.tier != "quick" else sorted(set([0, 1, 2, 7, 8, 9, 15, 16, 17, 24, 33, 40] + [rng.randrange(41) for _ in range(3)]))
                for ln in lens:
                    buf = [rng.randrange(256) for _ in range(ln)]
                    ops = gen.fill_prefix_w(10 ** 6, off) + [[5] + buf, [1, 5, 3], [5] + buf[:3], [3]]
                    cases.append(Case([world_hdr(E, wW=wW, wbackend=rng.choice([0, 3])), []] + ops, "io_write/W%d" % wW))
        for rW in gen.WORDS_R:
            Wb = rW if rW else 64
            offs = range(0, 2 * Wb + 1) if ctx.tier != "quick" else sorted(set([0, 1, 7, 8, 9, Wb - 1, Wb, Wb + 1, 2 * Wb] + [rng.randrange(2 * Wb + 1) for _ in range(4)]))
            for off in offs:
                lens = range(0, 41) if ctx.tier != "quick" else sorted(set([0, 1, 2, 7, 8, 9, 15, 16, 17, 24, 33, 40] + [rng.randrange(41) for _ in range(3)]))
                for ln in lens:
                    data = [rng.randrange(256) for _ in range(ln + 2 * Wb // 8 + 24)]
                    pre = []
                    left = off
                    while left > 0:
                        k = min(left, 61)
                        pre.append([10, k]); left -= k
                    ops = pre + [[16, ln], [10, 3], [16, 2]]
                    cases.append(Case([world_hdr(E, rW=rW), data] + ops, "io_read/W%d" % rW))
                    # the same after a look-ahead refill (peek of the widest legal width: more than one word in the
                    # buffer), on random and on all-ones data
                    pk = [13, Wb if rW else 32]
                    if off % 8 == 0:
                        # ... and after a seek of a used reader to this position followed by a look-ahead
                        cases.append(Case([world_hdr(E, rW=rW), data] + [[10, 5], [18, off], [13, min(9, Wb)], [16, ln], [17]],
                                          "io_read-after-seek/W%d" % rW))
                    cases.append(Case([world_hdr(E, rW=rW), rng.choice([data, [255] * len(data)])] + pre + [pk, [16, ln], [10, 3], pk, [16, 2]],
                                      "io_read-after-peek/W%d" % rW))
    for _ in range(60 if ctx.tier == "quick" else 600):
        E = rng.randrange(2)
        ln = rng.randrange(41, 300)
        buf = [rng.randrange(256) for _ in range(ln)]
        cases.append(Case([world_hdr(E, wW=rng.choice(gen.WORDS_W), wbackend=0), []] + gen.fill_prefix_w(10 ** 6, rng.randrange(130)) + [[5] + buf, [3]], "io_write/long"))
        cases.append(Case([world_hdr(E, rW=rng.choice(gen.WORDS_R)), buf + [0] * 40] + [[10, rng.randrange(64)], [16, ln - 8]], "io_read/long"))

    def oracle(c, r):
        # aligned: the image is exactly the slice
        return None
    ctx.corr(cases, what="C12 io views", oracle=oracle)


# =============================================================================== C14
def check_C14(ctx):
    ctx.v.cov["rule"] = ("random histories over every method the counting wrappers expose (fixed width, unary, all codes with all "
                         "table options, skips, peeks + skip-after-peek, copies, flush); counters vs model and vs the inner "
                         "stream's bit position; bytes and values identical with and without the wrapper")
    rng = ctx.rng
    cases = []
    pairs = []
    n = 250 if ctx.tier == "quick" else 2500
    for _ in range(n):
        E = rng.randrange(2)
        wW = rng.choice(gen.WORDS_W)
        ops = []
        for _ in range(rng.randrange(1, 30)):
            k = rng.random()
            if k < 0.3:
                nb = rng.randrange(65)
                ops.append([1, rng.getrandbits(nb) if nb else 0, nb])
            elif k < 0.45:
                ops.append([2, rng.randrange(150)])
            elif k < 0.9:
                cid, p = rng.choice(gen.code_params(rng, "quick")[:40])
                v = rng.choice([rng.randrange(10), rng.randrange(2000), rng.getrandbits(30)])
                if cid == 11:
                    v = v % p
                if gen.writable(cid, p, v):
                    ops.append([4, cid, p, rng.choice(gen.flag_options(cid)), v])
            else:
                ops.append([3])
            ops.append([32])
        ops += [[3], [32]]
        plain = Case([world_hdr(E, wW=wW, wcount=0, wbackend=0), []] + [o for o in ops if o[0] != 32], "count-writer/plain")
        wrapped = Case([world_hdr(E, wW=wW, wcount=1, wbackend=0), []] + ops, "count-writer/wrapped")
        traced = Case([world_hdr(E, wW=wW, wcount=2, wbackend=0), []] + [o for o in ops if o[0] != 32], "dbg-writer/wrapped")
        cases += [plain, wrapped, traced]
        pairs.append((plain, wrapped))
        pairs.append((plain, traced))

    def oracle_w(c, r):
        if c.groups[0][6] != 1:
            return None
        tot = 0
        ops = c.groups[2:]
        for op, g in zip(ops, r):
            if g[0] != 0:
                return None
            if op[0] in (1, 2, 4):
                tot += g[1]
            if op[0] == 32 and g[1] != tot:
                return "bits_written %d but %d bits were written" % (g[1], tot)
        return None
    rust = ctx.corr(cases, what="C14 counting writer", oracle=oracle_w)
    if rust:
        byc = {id(c): r for c, r in zip(cases, rust)}
        for plain, wrapped in pairs:
            a, b = byc[id(plain)], byc[id(wrapped)]
            if a and b and a[-1][0] == 99 and b[-1][0] == 99 and a[-1] != b[-1]:
                ctx.v.violation("the counting wrapper changed the bytes written", {"kind": "disagreement", "class_key": "count-writer", "case": wrapped.line()}, True)
                break
    # readers: write a stream, read it back through the wrapper
    items = [it for it in code_items(ctx, dense=False) if ctx.rng.random() < (0.25 if ctx.tier == "quick" else 1.0)]
    for it in items:
        it["strict"] = 0
        it["rb"] = 0
    written = write_phase(ctx, items, "C14 stream")
    rcases = []
    for it, data, ret in written:
        ops = [[10, k] for k in it["prefix"]] + [[33], [17], [15, it["cid"], it["p"], it["rfl"]], [33], [17], [15, 3, 0, 0] if False else [15, 1, 0, 1 if it["rW"] != 8 else 0], [33], [17],
                                                  [13, 5], [14, 2], [33], [17], [12, 7], [33], [17]]
        rcases.append(Case([world_hdr(it["E"], rW=it["rW"], rcount=1), list(data) + [0xA5] * 16] + ops, "count-reader/code%d" % it["cid"]))
        rcases.append(Case([world_hdr(it["E"], rW=it["rW"], rcount=2), list(data) + [0xA5] * 16] + [o for o in ops if o[0] not in (33, 17)],
                           "dbg-reader/code%d" % it["cid"]))

    def oracle_r(c, r):
        ops = c.groups[2:]
        cnt = None
        for op, g in zip(ops, r):
            if g[0] != 0:
                return None
            if op[0] == 33:
                cnt = g[1]
            if op[0] == 17 and cnt is not None and g[1] != cnt:
                return "bits_read %d but the stream position is %d" % (cnt, g[1])
        return None
    ctx.corr(rcases, what="C14 counting reader", oracle=oracle_r)
    # bulk copies issued through the wrappers
    ccases, fcases = [], []
    for _ in range(150 if ctx.tier == "quick" else 1500):
        E = rng.randrange(2)
        rW = rng.choice(gen.WORDS_R)
        wW = rng.choice(gen.WORDS_W)
        data = [rng.randrange(256) for _ in range(96)]
        n1, n2 = rng.choice([0, 1, 7, 63, 64, 65, 128, rng.randrange(200)]), rng.choice([0, 1, 64, 65, rng.randrange(200)])
        ops = [[10, rng.randrange(1, 40)], [33], [17], [30, n1], [33], [17], [32], [31, n2], [33], [17], [32], [10, 5], [33], [17]]
        ccases.append(Case([world_hdr(E, wW=wW, rW=rW, rcount=1, wcount=1, wbackend=0), data] + ops, "count-copy/W%d" % rW))
        # destination too small: the copy fails part-way; the counter must still equal the bits consumed
        k = rng.randrange(1, 40)
        big = rng.choice([wW + 1, 2 * wW, 3 * wW + 5, 300])
        fops = [[10, k], [33], [17], [30, big], [33], [17], [10, 7], [33], [17]]
        fcases.append(Case([world_hdr(E, wW=wW, wcap=1, rW=rW, rcount=1, wbackend=1, cont=1), data] + fops, "count-copy-failing/W%d" % rW, levels=(), wbackend=1))
        # (a source that is too short is not used here: a failed read spanning several backend words leaves the
        #  underlying BufBitReader having consumed the words it could read, which no property specifies)

    def oracle_rc(c, r):
        cnt = None
        for op, g in zip(c.groups[2:], r):
            if not g or g[0] != 0:
                continue        # a failed operation (the harness goes on): nothing to read off it
            if op[0] == 33:
                cnt = g[1]
            if op[0] == 17 and cnt is not None and g[1] != cnt:
                return "bits_read %d but the stream position is %d" % (cnt, g[1])
        return None
    ctx.corr(ccases, what="C14 copies through the wrappers", oracle=oracle_rc)
    ctx.corr(fcases, what="C14 copies failing part-way", oracle=oracle_rc, levels=[])


# =============================================================================== pure properties
def check_C16(ctx):
    ctx.v.cov["rule"] = ("every variant x parameter 0..=64 + large: display, parse(display), to_code_const, equality; ids 0..=60: "
                         "from_code_const and back; malformed strings by mutation of valid names; results vs the model generated "
                         "from the source's arm tables; oracle: parse(display c) = c")
    rng = ctx.rng
    ops = []
    params = list(range(0, 65)) + [100, 255, 256, 1000, 65535, 1 << 31, 1 << 32, (1 << 63), U64 - 1, U64]
    disp_ops = []
    for var in range(11):
        ps = params if var >= 6 else [0]
        for p in ps:
            disp_ops.append([0, var, p])
            ops.append([2, var, p])
    cases = []
    for i in range(0, len(disp_ops), 100):
        cases.append(Case([[5], []] + disp_ops[i:i + 100], "display", levels=(2,)))
    rust = ctx.corr(cases, what="C16 display")
    # parse what the implementation printed
    pcases = []
    pmeta = []
    strs = []
    for c, r in zip(cases, rust or []):
        for op, g in zip(c.groups[2:], r):
            if g and g[0] == 0:
                strs.append((op[1], op[2], g[1:]))
    for i in range(0, len(strs), 100):
        chunk = strs[i:i + 100]
        pc = Case([[5], []] + [[1] + list(s) for _, _, s in chunk], "parse-display", levels=(2,))
        pcases.append(pc)
        pmeta.append(chunk)
    pm = {id(c): m for c, m in zip(pcases, pmeta)}

    def oracle(c, r):
        for (var, p, s), g in zip(pm[id(c)], r):
            want_p = p if var >= 6 else 0
            if g != [0, var, want_p]:
                return "parse(display(variant %d, param %d) = %r) gave %r" % (var, p, bytes(s).decode(), g)
        return None
    ctx.corr(pcases, what="C16 parse(display)", oracle=oracle)
    # malformed strings
    names = ["Unary", "Gamma", "Delta", "Omega", "VByteBe", "VByteLe", "Zeta", "Pi", "Golomb", "ExpGolomb", "Rice"]
    bad = ["", " ", "(", ")", "()", "(3)", "unary", "GAMMA", "Zeta", "Zeta(", "Zeta()", "Zeta(-1)", "Zeta(x)", "Zeta(3.5)", "Zeta( 3)",
           "Zeta(18446744073709551616)", "Zeta(99999999999999999999999)", "Pi(+)", "Pi(+3)", "Pi(03)", "Rice(0x3)", "Golomb(3",
           "Golomb(3))", "Golomb((3)", "ExpGolomb(3)x", "Unary(3)", "Gamma()", "Delta(1)", "VByteBe(0)", "Zeta3", "zeta(3)", "Zeta (3)",
           "Zetaa(3)", "Rice(1)(2)", "Rice()3)", "Foo(3)", "Foo", "Pi(١)", "Pi(3 )"]
    for _ in range(200 if ctx.tier == "quick" else 3000):
        base = rng.choice(names)
        s = base + ("(%d)" % rng.choice(params) if rng.random() < 0.7 else "")
        k = rng.randrange(4)
        if k == 0 and s:
            i = rng.randrange(len(s)); s = s[:i] + s[i + 1:]
        elif k == 1:
            i = rng.randrange(len(s) + 1); s = s[:i] + rng.choice("()-+x 0a9Z") + s[i:]
        elif k == 2 and s:
            i = rng.randrange(len(s)); s = s[:i] + rng.choice("()-+x 0a9Z") + s[i + 1:]
        bad.append(s)
    # parameter texts that are not numbers, terminated or not
    for nm in names[6:]:
        for body in ("3x", "7-", "5a", "2 ", "4,", "x", "3x4", "+", "+x", "12 3", "-", "3-", "9_", "1e3"):
            for tail in ("", ")", "))", ") "):
                bad.append(nm + "(" + body + tail)
    bad = [b for b in bad if all(ord(ch) < 128 for ch in b)]
    mops = [[1] + list(s.encode()) for s in bad]
    mcases = [Case([[5], []] + mops[i:i + 100], "malformed", levels=(2,)) for i in range(0, len(mops), 100)]

    def oracle_bad(c, r):
        for op, g in zip(c.groups[2:], r):
            s = bytes(op[1:]).decode()
            name = s.split("(")[0]
            if g and g[0] == 0:
                if name not in names:
                    return "parse(%r) accepted although %r is not a code name" % (s, name)
                if name in names[6:]:
                    rest = s.split("(")[1].split(")")[0] if "(" in s else None
                    if rest is None or not rest.lstrip("+").isdigit():
                        return "parse(%r) accepted although the parameter is missing or not a number" % s
        return None
    ctx.corr(mcases, what="C16 malformed", oracle=oracle_bad)
    # identifiers
    iops = [[3, i] for i in range(0, 61)] + ops
    eq_ops = []
    codes = [(v, p) for v in range(11) for p in ([0] if v < 6 else [0, 1, 2, 3, 4, 8, 9])]
    for a in codes:
        for b in codes:
            eq_ops.append([4, a[0], a[1], b[0], b[1]])
    icases = [Case([[5], []] + (iops + eq_ops)[i:i + 200], "identifiers", levels=(2,)) for i in range(0, len(iops + eq_ops), 200)]
    irust = ctx.corr(icases, what="C16 identifiers")
    # oracle on the implementation: codes that compare equal write identical codewords
    eqpairs = set()
    for c, r in zip(icases, irust or []):
        for op, g in zip(c.groups[2:], r):
            if op[0] == 4 and g and g[0] == 0 and g[1] == 1 and (op[1], op[2]) != (op[3], op[4]):
                eqpairs.add(((op[1], op[2]), (op[3], op[4])))
    vals = list(range(0, 40)) + [100, 1000, 12345]
    ecases = []
    emeta = []
    for (a, b) in sorted(eqpairs):
        for E in (0, 1):
            ops = []
            for v in vals:
                if a[0] == 8 and (a[1] == 0 or v // max(a[1], 1) > 4000) or b[0] == 8 and (b[1] == 0 or v // max(b[1], 1) > 4000):
                    continue
                ops.append([5, 1, a[0], a[1], v])
                ops.append([5, 1, b[0], b[1], v])
            ecases.append(Case([[6, E], []] + ops, "eq-codewords", levels=(2,)))
            emeta.append((a, b, E))
    em = {id(c): m for c, m in zip(ecases, emeta)}

    def oracle_eq(c, r):
        a, b, E = em[id(c)]
        ops = c.groups[2:]
        for i in range(0, len(ops) - 1, 2):
            if i + 1 < len(r) and r[i] and r[i + 1] and r[i][0] == 0 and r[i + 1][0] == 0 and r[i] != r[i + 1]:
                return "codes %r and %r compare equal but the codewords of %d differ (E=%d): %r vs %r" % (a, b, ops[i][4], E, r[i][1:], r[i + 1][1:])
        return None
    ctx.corr(ecases, what="C16 equal codes write equal codewords", oracle=oracle_eq)


def check_C10(ctx):
    ctx.v.cov["rule"] = ("all 51 constants (+ out-of-range ids to 55), all 59 published constant NAMES (ConstCode<{code_consts::N}>) and all enum variants with parameters 0..=12 x dispatcher kind "
                         "(enum, ConstCode by id, ConstCode by name, FuncCode*, factory, stats wrapper) x {read, write, len} x value grid x endianness; "
                         "bytes/values/lengths vs the direct method through the model generated from the dispatch tables")
    rng = ctx.rng
    vals = [0, 1, 2, 3, 4, 5, 6, 7, 8, 9, 10, 11, 12, 15, 16, 63, 64, 100, 255, 256, 1000, 1023, 1024, 65535, (1 << 20) + 3, rng.getrandbits(24), rng.getrandbits(31)]
    if ctx.tier != "quick":
        vals += list(range(9, 200)) + [rng.getrandbits(40) for _ in range(20)]
    cases = []
    for E in (0, 1):
        ops = []
        for cid in range(0, 51):
            for opk in (0, 1, 2):
                for v in vals:
                    # unary-prefixed codes: keep the codeword short enough to execute
                    if cid == 0 and v > 5000:
                        continue
                    if 15 <= cid <= 24 and (v >> (cid - 14)) > 5000:
                        continue
                    if 35 <= cid <= 40 and v // 3 > 5000:
                        continue
                    ops.append([1, opk, cid, 0, v])
        for var in range(11):
            for p in ([0] if var < 6 else range(0, 13)):
                for dk in (0, 2, 3, 4, 5, 6):
                    for opk in (0, 1, 2):
                        if dk == 6 and (p > 10 or (var in (6, 8) and p == 0)):
                            continue   # no published constant of that name
                        if dk == 3 and opk != 0:
                            continue
                        if dk == 4 and opk == 2:
                            continue
                        if dk == 5 and opk == 0:
                            continue
                        for v in vals:
                            if var in (0,) and v > 5000:
                                continue
                            if var == 10 and (v >> p) > 5000:
                                continue
                            if var == 8 and (p == 0 or v // max(p, 1) > 5000):
                                continue
                            if var == 6 and p == 0:
                                continue
                            if var == 7 and v >> p > 1 << 40:
                                continue
                            ops.append([dk, opk, var, p, v])
        rng.shuffle(ops)
        if ctx.tier == "quick":
            # the by-name constants (kind 6) and their direct counterparts (kind 5) are always all kept
            keep = [o for o in ops if o[0] in (5, 6)]
            rest = [o for o in ops if o[0] not in (5, 6)]
            ops = keep + rest[: max(0, 30000 - len(keep))]
            rng.shuffle(ops)
        for i in range(0, len(ops), 150):
            cases.append(Case([[6, E], []] + ops[i:i + 150], "dispatch/E%d" % E, levels=(2,)))

    def oracle(c, r):
        for op, g in zip(c.groups[2:], r):
            if op[1] == 0 and g and g[0] == 0 and g[1] != op[4]:
                return "dispatcher kind %d read %d where the direct method wrote %d (code %d/%d)" % (op[0], g[1], op[4], op[2], op[3])
            # every published code (parameters up to 10) is accepted by every dispatcher
            if op[0] in (0, 2, 3, 4, 6) and op[3] <= 10 and not (op[2] in (6, 8) and op[3] == 0) and g and g[0] == 1:
                return "dispatcher kind %d rejects the published code %d/%d (operation %d)" % (op[0], op[2], op[3], op[1])
        return None
    rust = ctx.corr(cases, what="C10 dispatch", oracle=oracle)
    # the property's own oracle on the implementation: every dispatcher writes the bytes / reports the
    # length of the code's own method (kind 5) for the same code, value and endianness
    direct = {}
    others = []
    for c, r in zip(cases, rust or []):
        E = c.groups[0][1]
        for op, g in zip(c.groups[2:], r):
            if op[1] in (1, 2) and g and g[0] == 0 and op[0] != 1:
                key = (E, op[1], op[2], op[3], op[4])
                if op[0] == 5:
                    direct[key] = g
                else:
                    others.append((key, op[0], g))
    for key, dk, g in others:
        d = direct.get(key)
        if d is not None and d != g:
            E, opk, var, p, v = key
            ctx.v.violation("dispatcher kind %d %s differs from the code's own method for variant %d param %d value %d (E=%d): %r vs %r"
                            % (dk, "write" if opk == 1 else "len", var, p, v, E, g, d),
                            {"kind": "disagreement", "class_key": "dispatch-vs-direct", "case": "6 %x;;%x %x %x %x %x;5 %x %x %x %x" % (E, dk, opk, var, p, v, opk, var, p, v),
                             "levels": [], "dispatcher": g, "direct": d}, True)
            break


def check_C17(ctx):
    ctx.v.cov["rule"] = ("to_int/to_nat on 8-,16-bit exhaustively (32-bit exhaustively in the harness for thorough via strides), "
                         "values within 2^16 (quick: 2^8) of 0, MIN, MAX and every power of two plus random for 32/64/128/usize; "
                         "vs the Z model; oracle: mutual inverses and the 2x / -2x-1 formula")
    rng = ctx.rng
    cases = []
    for w in (8, 16, 32, 64, 128, 0):
        wb = w if w else 64
        if w in (8, 16):
            xs = range(1 << w)
        else:
            near = 1 << (8 if ctx.tier == "quick" else 12)
            s = set()
            for base in [0, 1 << (wb - 1), (1 << wb) - 1] + [1 << i for i in range(1, wb)]:
                for d in range(-near, near + 1, 1 if ctx.tier != "quick" else 7):
                    s.add((base + d) % (1 << wb))
            for _ in range(2000):
                s.add(rng.getrandbits(wb))
            xs = sorted(s)
        ops = []
        for x in xs:
            ops.append([0, x])
            ops.append([1, x])
        for i in range(0, len(ops), 400):
            cases.append(Case([[3, w], []] + ops[i:i + 400], "zigzag/w%d" % w, levels=(2,)))

    def oracle(c, r):
        w = c.groups[0][1] or 64
        M = 1 << w
        for op, g in zip(c.groups[2:], r):
            x = op[1]
            if g[0] != 0:
                return "panic on %r" % (op,)
            if op[0] == 1:
                y = x if x < M // 2 else x - M
                want = 2 * y if y >= 0 else -2 * y - 1
                if g[1] != want:
                    return "to_nat(%d) = %d, expected %d (width %d)" % (y, g[1], want, w)
            else:
                want = x // 2 if x % 2 == 0 else -(x // 2) - 1
                if g[1] != want % M:
                    return "to_int(%d) = %d (as unsigned), expected %d (width %d)" % (x, g[1], want % M, w)
        return None
    ctx.corr(cases, what="C17 zig-zag", oracle=oracle)


def check_C18(ctx):
    ctx.v.cov["rule"] = ("values < 2^16 (thorough 2^21), every length-step boundary +-2 up to 10 bytes, 2^64-1, random; both variants; "
                         "io functions and the generic entry points; every terminated byte string of length <= 3 (quick: <= 2 + "
                         "sampled) decoded and re-encoded; bit-stream VByte at byte-aligned positions vs io bytes over both stream "
                         "endiannesses and all word sizes")
    rng = ctx.rng
    vals = set(range(1 << (16 if ctx.tier == "quick" else 21))) if ctx.tier != "quick" else set(range(1 << 12)) | {rng.randrange(1 << 16) for _ in range(3000)}
    step = 0
    for j in range(1, 11):
        step += 1 << (7 * j)
        for d in range(-2, 3):
            if 0 <= step + d <= U64:
                vals.add(step + d)
    vals |= {U64, U64 - 1, 1 << 63, (1 << 63) - 1} | {rng.getrandbits(rng.randrange(1, 65)) for _ in range(500)}
    vals = sorted(vals)
    ops = []
    for v in vals:
        for var in (0, 1):
            ops.append([0, var, v, 0])
            if v % 7 == 0:
                ops.append([0, var, v, 1])
            if v > (1 << 16) or v % 97 == 0:
                # a sink that takes only a few bytes per call (std::io::Write allows short writes)
                ops.append([0, var, v, rng.randrange(2), rng.choice([1, 2, 3, 5, 9])])
    cases = [Case([[4], []] + ops[i:i + 300], "vbyte-encode", levels=(2,)) for i in range(0, len(ops), 300)]
    rust = ctx.corr(cases, what="C18 encode")
    # the length function matches the encoded length (steps at 2^7, 2^7+2^14, ...)
    lops = [[4 + var, 0, 0, v] for v in vals for var in (0, 1)]
    lcases = [Case([[2], []] + lops[i:i + 500], "vbyte-len", levels=(2,)) for i in range(0, len(lops), 500)]
    lres = ctx.corr(lcases, what="C18 length function")
    enc_len = {}
    for c, r in zip(cases, rust or []):
        for op, g in zip(c.groups[2:], r):
            if g and g[0] == 0:
                enc_len[(op[1], op[2])] = len(g) - 1
    for c, r in zip(lcases, lres or []):
        bad = None
        for op, g in zip(c.groups[2:], r):
            k = (op[0] - 4, op[3])
            if g and g[0] == 0 and k in enc_len and g[1] != 8 * enc_len[k]:
                bad = (op[3], g[1], enc_len[k])
                break
        if bad:
            ctx.v.violation("bit_len_vbyte(%d) = %d but the encoders write %d bytes" % bad,
                            {"kind": "disagreement", "class_key": "vbyte-len", "case": "2;;4 0 0 %x" % bad[0], "levels": [2]}, True)
            break
    # decode what was encoded; completeness on all short terminated strings
    dops = []
    dmeta = []
    for c, r in zip(cases, rust or []):
        for op, g in zip(c.groups[2:], r):
            if g and g[0] == 0:
                dops.append([1, op[1]] + g[1:] + [0xAA])
                dmeta.append(("val", op[2], len(g) - 1))
    maxlen = 2 if ctx.tier == "quick" else 3
    for L in range(1, maxlen + 1):
        for body in itertools.product(range(128, 256), repeat=L - 1):
            for last in range(0, 128):
                for var in (0, 1):
                    dops.append([1, var] + list(body) + [last])
                    dmeta.append(("str", None, L))
    if ctx.tier == "quick":
        for _ in range(3000):
            L = rng.randrange(3, 10)
            s = [rng.randrange(128, 256) for _ in range(L - 1)] + [rng.randrange(128)]
            for var in (0, 1):
                dops.append([1, var] + s)
                dmeta.append(("str", None, L))
    dcases = []
    dm = {}
    for i in range(0, len(dops), 300):
        c = Case([[4], []] + dops[i:i + 300], "vbyte-decode", levels=(2,))
        dcases.append(c)
        dm[id(c)] = dmeta[i:i + 300]

    def oracle(c, r):
        for op, g, m in zip(c.groups[2:], r, dm[id(c)]):
            if m[0] == "val":
                if g != [0, m[1], m[2]]:
                    return "decode(encode(%d)) gave %r" % (m[1], g)
        return None
    rust2 = ctx.corr(dcases, what="C18 decode", oracle=oracle)
    # re-encode every decoded string: completeness
    reops = []
    remeta = []
    for c, r in zip(dcases, rust2 or []):
        for op, g, m in zip(c.groups[2:], r, dm[id(c)]):
            if m[0] == "str" and g and g[0] == 0:
                reops.append([0, op[1], g[1], 0])
                remeta.append(op[2:])
    recases = []
    rm = {}
    for i in range(0, len(reops), 300):
        c = Case([[4], []] + reops[i:i + 300], "vbyte-reencode", levels=(2,))
        recases.append(c)
        rm[id(c)] = remeta[i:i + 300]

    def oracle2(c, r):
        for op, g, s in zip(c.groups[2:], r, rm[id(c)]):
            if g[1:] != s:
                return "string %r decodes to %d which re-encodes to %r" % (s, op[2], g[1:])
        return None
    ctx.corr(recases, what="C18 completeness", oracle=oracle2)
    # bit-stream traits at byte-aligned positions produce the io bytes
    wcases = []
    wmeta = []
    sample = [v for v in vals if v < 300 or rng.random() < 0.02]
    for v in sample:
        for var in (0, 1):
            E = rng.randrange(2)
            wW = rng.choice(gen.WORDS_W)
            k = rng.randrange(0, 5)
            ops = [[1, 0x5A, 8]] * k + [[4, 4 + var, 0, 0, v], [3]]
            wcases.append(Case([world_hdr(E, wW=wW, wbackend=3), []] + ops, "vbyte-bitstream"))
            wmeta.append((var, v, k))
    rust3 = ctx.corr(wcases, what="C18 bit-stream write")
    io_bytes = {}
    for c, r in zip(cases, rust or []):
        for op, g in zip(c.groups[2:], r):
            if g and g[0] == 0 and op[3] == 0:
                io_bytes[(op[1], op[2])] = g[1:]
    for (var, v, k), r in zip(wmeta, rust3 or []):
        if r and r[-1][0] == 99:
            want = io_bytes.get((var, v))
            got = r[-1][1 + k: 1 + k + len(want)] if want else None
            if want and got != want:
                ctx.v.violation("bit-stream VByte bytes %r != io bytes %r for value %d variant %d" % (got, want, v, var),
                                {"kind": "disagreement", "class_key": "vbyte-bitstream", "value": v, "variant": var}, True)
                break


def check_C13(ctx):
    ctx.v.cov["rule"] = ("all operation sequences up to depth 4 (thorough 6) over arrays of length <= 3 and a small alphabet for the four "
                         "stream kinds (u16), long random sequences for u8..u128; outputs and final contents vs the array+cursor model")
    rng = ctx.rng
    cases = []
    alpha_ops = [[0], [1, 7], [1, 0], [2], [3, 0], [3, 1], [3, 2], [3, 3], [3, 4], [4]]
    depth = 4 if ctx.tier == "quick" else 5
    for kind in range(4):
        for init in ([], [5], [5, 6], [5, 6, 9]):
            for seq in itertools.product(alpha_ops, repeat=depth):
                if kind < 2 and any(o[0] in (1, 4) for o in seq):
                    continue
                cases.append(Case([[7, kind, 16], list(init)] + [list(o) for o in seq], "memw/kind%d" % kind, levels=(2,)))
    for _ in range(400 if ctx.tier == "quick" else 4000):
        kind = rng.randrange(4)
        W = rng.choice([8, 16, 32, 64, 128])
        init = [rng.getrandbits(W) for _ in range(rng.randrange(0, 9))]
        ops = []
        for _ in range(rng.randrange(1, 60)):
            k = rng.randrange(6)
            if k == 0 or (kind < 2 and k in (1, 4)):
                ops.append([0])
            elif k == 1:
                ops.append([1, rng.getrandbits(W)])
            elif k == 2:
                ops.append([2])
            elif k == 3:
                ops.append([3, rng.choice([rng.randrange(12), len(init), len(init) + 1, 0])])
            else:
                ops.append([4])
        cases.append(Case([[7, kind, W], init] + ops, "memw-random/kind%d/W%d" % (kind, W), levels=(2,)))
    # seek targets at the far end of the u64 range: rejected (or, for the zero-extended reader, accepted and reported
    # exactly); the position is queried, then the stream is brought back and used again
    for kind in range(4):
        for W in (8, 16, 64, 128):
            for ln in (0, 1, 3, 8):
                init = [rng.getrandbits(W) for _ in range(ln)]
                for far in (1 << 31, 1 << 32, (1 << 63) - 1, 1 << 63, (1 << 63) + 1, (1 << 64) - 1 - ln, (1 << 64) - 2, (1 << 64) - 1, ln + 1, ln):
                    ops = [[0], [2], [3, far], [2], [3, min(1, ln)], [2], [0], [2], [4]]
                    if kind >= 2:
                        ops += [[1, 5], [2], [3, far], [2], [4]]
                    cases.append(Case([[7, kind, W], init] + ops, "memw-far-seek/kind%d/W%d" % (kind, W), levels=(2,)))
    ctx.corr(cases, what="C13 word streams")


def check_C11(ctx):
    ctx.v.cov["rule"] = ("WordAdapter write_word/read_word under every fault schedule of up to 3 events (per-call byte limit 0..W/8, "
                         "Interrupted, hard error) for u8..u128, word positions and seeks over a Cursor; bit streams through the "
                         "adapter vs memory (C01/C02 runs use adapter backends); oracle: Ok => all bytes present once, in order")
    rng = ctx.rng
    cases = []
    for W in (8, 16, 32, 64, 128):
        nb = W // 8
        events = [0, 1] + [k + 2 for k in range(0, nb + 1)]
        if ctx.tier == "quick" and len(events) > 7:
            events = [0, 1, 2, 3, 2 + nb // 2, 2 + nb - 1, 2 + nb]
        words = [rng.getrandbits(W) for _ in range(3)]
        for L in range(0, 4):
            for sched in itertools.product(events, repeat=L):
                cases.append(Case([[8, W, 0], list(sched), words], "adapter-write/W%d" % W, levels=(2,)))
                src = []
                for w in words:
                    src += [(w >> (8 * i)) & 255 for i in range(nb)]
                cases.append(Case([[8, W, 1, 3], list(sched), src + src[: nb // 2]], "adapter-read/W%d" % W, levels=(2,)))

    def oracle(c, r):
        W = c.groups[0][1]
        nb = W // 8
        if c.groups[0][2] == 0:
            words = c.groups[2]
            sink = r[-1][1:] if r and r[-1] and r[-1][0] == 99 else []
            okc = sum(1 for g in r if g == [0])
            want = []
            for w in words[:okc]:
                want += [(w >> (8 * i)) & 255 for i in range(nb)]
            if sink[: len(want)] != want:
                return "%d write_word calls returned Ok but the sink holds %r, expected prefix %r" % (okc, sink, want)
        return None
    ctx.corr(cases, what="C11 adapter faults", oracle=oracle)
    # positions
    pcases = []
    for W in (8, 16, 32, 64, 128):
        nb = W // 8
        for _ in range(40 if ctx.tier == "quick" else 400):
            data = [rng.randrange(256) for _ in range(nb * rng.randrange(1, 6))]
            ops = []
            for _ in range(rng.randrange(1, 15)):
                k = rng.randrange(4)
                ops.append([[0], [1, rng.getrandbits(W)], [2], [3, rng.randrange(0, len(data) // nb + 2)]][k])
                ops.append([2])
            pcases.append(Case([[8, W, 2], data] + ops, "adapter-pos/W%d" % W, levels=(2,)))

    # byte streams whose length is not a multiple of the word size: the tail cannot be read; seeking afterwards still
    # addresses whole words, and a word written after a seek lands at that word
    for W in (16, 32, 64, 128):
        nb = W // 8
        for _ in range(40 if ctx.tier == "quick" else 300):
            nw = rng.randrange(1, 4)
            data = [rng.randrange(256) for _ in range(nb * nw + rng.randrange(1, nb))]
            ops = [[0]] * (nw + 1) + [[2]]
            for _ in range(rng.randrange(1, 6)):
                k = rng.choice([nw + 1, nw, rng.randrange(0, nw + 3)])
                ops += [[3, k], rng.choice([[0], [1, rng.getrandbits(W)], [2]]), [2]]
            pcases.append(Case([[8, W, 2], data] + [list(o) for o in ops], "adapter-pos-ragged/W%d" % W, levels=(2,)))

    def oracle_pos(c, r):
        # reference: a byte array with a cursor; read_exact / write_all of whole words; word_pos rounds up
        W = c.groups[0][1]
        nb = W // 8
        img = bytearray(c.groups[1])
        pos = 0
        known = True
        for i, (op, g) in enumerate(zip(c.groups[2:], r)):
            if not known and op[0] != 3:
                if op[0] == 1:
                    return None        # a write at an unknown position: nothing more can be predicted
                continue
            if op[0] == 0:
                if pos + nb <= len(img):
                    want = int.from_bytes(img[pos:pos + nb], "little")
                    if g != [0, want]:
                        return "op %d: read_word at byte %d gave %r, the stream holds %d there" % (i, pos, g, want)
                    pos += nb
                else:
                    if not g or g[0] != 1:
                        return "op %d: read_word past the last whole word gave %r" % (i, g)
                    if pos > len(img):
                        known = False      # where a failed read_exact leaves a cursor that stood beyond the end depends on std
                    pos = len(img)
            elif op[0] == 1:
                if not g or g[0] != 0:
                    return "op %d: write_word failed: %r" % (i, g)
                if pos > len(img):
                    img.extend(b"\0" * (pos - len(img)))
                img[pos:pos + nb] = int(op[1]).to_bytes(nb, "little")
                pos += nb
            elif op[0] == 2:
                want = (pos + nb - 1) // nb
                if g != [0, want]:
                    return "op %d: word_pos reported %r at byte %d (word %d)" % (i, g, pos, want)
            else:
                if not g or g[0] != 0:
                    return "op %d: set_word_pos(%d) failed: %r" % (i, op[1], g)
                pos = op[1] * nb
                known = True
        fin = r[-1] if r and r[-1] and r[-1][0] == 99 else None
        if fin is not None and list(fin[1:]) != list(img):
            return "final byte image differs from the reference: %r vs %r" % (list(fin[1:])[:40], list(img)[:40])
        return None
    ctx.corr(pcases, what="C11 word positions", oracle=oracle_pos)
    # bit streams through the adapter (plain byte sink, and a STAGING sink that only hands bytes over when it is
    # itself flushed) vs the memory image of the model; readers over the adapter on a Cursor
    wcs = [c for c in gen.gen_C01(rng, ctx.tier) if c.groups[0][8] in (2, 4)]
    ctx.corr(wcs, what="C11 bit streams written through the adapter")
    rcs = [c for c in gen.gen_reader_cases(rng, "quick", False) if c.groups[0][9] == 3]
    ctx.corr(rcs, what="C11 bit streams read through the adapter")


def check_C15(ctx):
    ctx.v.cov["rule"] = ("random multisets (small, boundary, large values; multiplicities), split into partial statistics merged by "
                         "add / += / sum; totals and best code vs the model; real threads (2..8) updating through one shared "
                         "CodesStatsWrapper on reads and writes vs the sequential model")
    rng = ctx.rng
    cases = []
    n = 150 if ctx.tier == "quick" else 1500
    for _ in range(n):
        ops = []
        for _ in range(rng.randrange(1, 60)):
            v = rng.choice([rng.randrange(10), rng.randrange(1000), rng.getrandbits(rng.randrange(1, 40)), (1 << rng.randrange(1, 40)) - 1])
            k = rng.random()
            if k < 0.6:
                ops.append([0, v])
            elif k < 0.8:
                ops.append([1, v, rng.randrange(0, 50)])
            elif k < 0.9:
                ops.append([2])
            else:
                ops.append([3])
            if rng.random() < 0.1:
                ops.append([4])
        ops += [[3], [4]]
        cases.append(Case([[9], []] + ops, "stats", levels=(2,)))
    def oracle(c, r):
        # the property's own oracle on the implementation's totals: the reported best code is a tracked code whose
        # total is the minimum of all tracked totals, and the reported cost is that minimum
        # (tracked: zeta 1..=10, golomb 1..=20, exp-golomb 0..=9, rice 0..=9, pi 2..=11 after the six fixed codes)
        for i in range(len(r) - 1):
            f, b = r[i], r[i + 1]
            if len(f) == 67 and len(b) == 4 and f[0] == 0 and b[0] == 0:
                tot = {(0, 0): f[2], (1, 0): f[3], (2, 0): f[4], (3, 0): f[5], (5, 0): f[6], (4, 0): f[6]}
                j = 7
                for var, lo, cnt in ((6, 1, 10), (8, 1, 20), (9, 0, 10), (10, 0, 10), (7, 2, 10)):
                    for q in range(cnt):
                        tot[(var, lo + q)] = f[j]; j += 1
                key = (b[1], b[2] if b[1] >= 6 else 0)
                if key not in tot:
                    return "best_code reports %r which is not a tracked code" % (key,)
                m = min(tot.values())
                if tot[key] != m or b[3] != m:
                    return "best_code reports code %r (total %d) with cost %d but the minimum tracked total is %d" % (key, tot[key], b[3], m)
        return None
    ctx.corr(cases, what="C15 statistics", oracle=oracle)
    # writes through the wrapper into a sink that fills up: a write that failed wrote nothing and is not an observation
    binary = ctx.harness("debug", ())
    if binary:
        fcs = []
        for _ in range(40 if ctx.tier == "quick" else 400):
            capw = rng.randrange(1, 4)
            vals = [rng.choice([rng.randrange(10), rng.getrandbits(rng.randrange(1, 41)), (1 << 40) - 1]) for _ in range(rng.randrange(2, 30))]
            fcs.append(Case([[13, capw], []] + [[0, v] for v in vals], "stats-failing-writes", levels=()))
        fr = core.run_rust(binary, fcs)
        seqs = []
        for c, r in zip(fcs, fr):
            okv = [op[1] for op, g in zip(c.groups[2:], r) if g == [0]]
            seqs.append(Case([[9], []] + [[0, v] for v in okv] + [[4]], "stats-failing-writes-ref", levels=()))
        sr = core.run_rust(binary, seqs)
        ctx.v.count(fcs)
        ctx.v.cov["evaluations"] += len(fcs)
        for c, r, ref in zip(fcs, fr, sr):
            nfail = sum(1 for g in r[:-2] if g == [1])
            if len(r) < 2 or r[-2:] != ref[-2:]:
                ctx.v.violation("statistics after %d failed and %d successful writes through the wrapper differ from observing the successful values only: %r vs %r"
                                % (nfail, len(r) - 2 - nfail, r[-2][:8] if len(r) >= 2 else r, ref[-2][:8] if len(ref) >= 2 else ref),
                                {"kind": "disagreement", "class_key": "stats-failing-writes", "case": c.line(), "levels": [],
                                 "impl_result": ";".join(" ".join("%x" % x for x in g) for g in r)[:2000]}, True)
                break
            ctx.v.cov["traces_validated_against_impl"] += 1
    # permutation invariance + threads: the threaded run must equal the sequential model run
    tcases = []
    mcases = []
    for _ in range(30 if ctx.tier == "quick" else 200):
        vals = [rng.choice([rng.randrange(10), rng.randrange(5000), rng.getrandbits(30)]) for _ in range(rng.randrange(10, 400))]
        nt = rng.randrange(2, 9)
        tcases.append(Case([[11, nt], []] + [[0, v] for v in vals], "stats-threads/%d" % nt, levels=()))
        mcases.append(Case([[9], []] + [[0, v] for v in vals] + [[4]], "stats-threads-seq", levels=()))
    # long contended runs: a lost update needs two threads inside the wrapper at the same time
    for _ in range(4 if ctx.tier == "quick" else 20):
        vals = [rng.randrange(64) for _ in range(40000)]
        tcases.append(Case([[11, 8], []] + [[0, v] for v in vals], "stats-threads-contended/8", levels=()))
        mcases.append(Case([[9], []] + [[0, v] for v in vals] + [[4]], "stats-threads-seq-impl", levels=()))
    binary = ctx.harness("release", ())
    if binary:
        tr = core.run_rust(binary, tcases)
        # short runs: sequential MODEL; long contended runs: the implementation's own sequential run
        small = [i for i, c in enumerate(mcases) if c.tag == "stats-threads-seq"]
        big = [i for i, c in enumerate(mcases) if c.tag != "stats-threads-seq"]
        mr = [None] * len(mcases)
        for i, r in zip(small, core.run_model(ctx.driver, [mcases[i] for i in small], 2)):
            mr[i] = r
        for i, r in zip(big, core.run_rust(binary, [mcases[i] for i in big])):
            mr[i] = r
        ctx.v.cov["evaluations"] += len(tcases)
        ctx.v.count(tcases)
        for c, a, b in zip(tcases, tr, mr):
            if a != b:
                ctx.v.violation("totals after concurrent updates differ from the sequential model: %r vs %r" % (a[:1], b[:1]),
                                {"kind": "disagreement", "class_key": "stats-threads", "case": c.line()[:3000]}, True)
                break
            ctx.v.cov["traces_validated_against_impl"] += 1


def check_C20(ctx):
    ctx.v.cov["rule"] = ("len functions of every code x parameters 0..=16 (+ larger) on adjacent values below 2^12 (thorough 2^16) and "
                         "around every power of two: monotone; Kraft sums of prefixes <= 1 (exact rationals in the check); "
                         "change-point iterator on every library length function and synthetic step functions (constants, steps "
                         "beyond 2^63) vs the model and vs brute force")
    rng = ctx.rng
    cases = []
    meta = []
    params = [(0, 0), (1, 0), (2, 0), (3, 0), (4, 0)]
    params += [(6, k) for k in list(range(1, 17)) + [31, 32, 63]]
    params += [(7, k) for k in list(range(0, 17)) + [31, 63]] + [(9, k) for k in list(range(0, 17)) + [31, 63]] + [(10, k) for k in list(range(0, 17)) + [31, 63]]
    params += [(8, b) for b in list(range(1, 65)) + [100, 1000, (1 << 32) + 1]]
    top = 1 << (12 if ctx.tier == "quick" else 16)
    for cid, p in params:
        vals = set(range(top if cid not in (8,) or p < 20 else 1 << 10))
        for i in range(1, 64):
            for d in range(-3, 4):
                v = (1 << i) + d
                if 0 <= v <= U64 - 1:
                    vals.add(v)
        vals = sorted(vals)
        ops = [[cid, p, 4, v] for v in vals]
        for i in range(0, len(ops), 1000):
            c = Case([[2], []] + ops[i:i + 1000], "len-monotone/code%d" % cid, levels=(2,))
            cases.append(c)

    def oracle(c, r):
        prev = None
        for op, g in zip(c.groups[2:], r):
            if g[0] != 0:
                continue
            if prev is not None and g[1] < prev[1] and op[3] > prev[0]:
                return "len(code %d, param %d) decreases: len(%d)=%d > len(%d)=%d" % (op[0], op[1], prev[0], prev[1], op[3], g[1])
            prev = (op[3], g[1])
        return None
    rust = ctx.corr(cases, what="C20 monotone lengths", oracle=oracle)
    # Kraft on prefixes (exact)
    from fractions import Fraction
    sums = {}
    for c, r in zip(cases, rust or []):
        for op, g in zip(c.groups[2:], r):
            key = (op[0], op[1])
            st = sums.setdefault(key, [0, Fraction(0), True])
            if st[2] and op[3] == st[0] and g[0] == 0 and op[3] < 2048:
                st[1] += Fraction(1, 1 << g[1]) if g[1] < 4000 else 0
                st[0] += 1
                if st[1] > 1:
                    ctx.v.violation("Kraft sum of the first %d lengths of code %d/%d exceeds 1" % (st[0], key[0], key[1]),
                                    {"kind": "disagreement", "class_key": "kraft", "code": key[0], "param": key[1], "N": st[0]}, True)
                    st[2] = False
    # change points
    fcases = []
    for cid, p in params:
        fcases.append(Case([[10, 200, 0, cid, p], []], "fcp/code%d" % cid, levels=(2,)))
    for _ in range(100 if ctx.tier == "quick" else 1000):
        k = rng.randrange(0, 12)
        steps = sorted({rng.choice([rng.randrange(100), rng.getrandbits(rng.randrange(1, 64)), (1 << rng.randrange(1, 64)) + rng.randrange(-2, 3)]) for _ in range(k)})
        steps = [s for s in steps if 0 < s]
        if rng.random() < 0.2:
            steps.append((1 << 63) + rng.randrange(1 << 20))
        fcases.append(Case([[10, 64, 1, rng.randrange(5)], sorted(set(steps))], "fcp/synthetic%d" % len(steps), levels=(2,)))
    fcases.append(Case([[10, 64, 1, 3], []], "fcp/constant", levels=(2,)))

    def oracle_f(c, r):
        hdr = c.groups[0]
        if hdr[2] != 1:
            return None
        if not r or r[0][0] != 0:
            return "iterator did not end normally: %r" % (r[:1],)
        steps = c.groups[1]
        got = list(zip(r[0][1::2], r[0][2::2]))
        want = [(0, hdr[3])]
        val = hdr[3]
        for s in sorted(set(steps)):
            if s < (1 << 63):
                val = hdr[3] + sum(1 for t in steps if t <= s)
                want.append((s, val))
        # the property promises exactness up to 2^63; later items, if any, must still be change points
        if got[: len(want)] != want:
            return "change points %r, expected %r" % (got[:8], want[:8])
        return None
    ctx.corr(fcases, what="C20 change points", oracle=oracle_f)


# =============================================================================== C19
def check_C19(ctx):
    ctx.v.cov["rule"] = ("feature sets {default, checks, no_copy_impls, both} x profiles {release, debug-assertions+overflow-checks} "
                         "(quick: 4 debug + default release): C01/C02/C03/C08 case files restricted to clean arguments must give "
                         "identical results in every build and equal the model; write_bits(v,n) with each single bit >= n set "
                         "panics exactly under `checks`")
    rng = ctx.rng
    builds = [("debug", f) for f in ALL_FEATURES] + [("release", ())]
    if ctx.tier != "quick":
        builds += [("release", f) for f in ALL_FEATURES[1:]]
    # dirty arguments
    cases = []
    for E in (0, 1):
        for wW in gen.WORDS_W:
            for n in range(0, 65):
                bits = range(n, 64) if ctx.tier != "quick" else sorted(set([n, 63] + [rng.randrange(n, 64) for _ in range(2)])) if n < 64 else []
                for b in bits:
                    v = (1 << b) | (rng.getrandbits(n) if n else 0)
                    cases.append(Case([world_hdr(E, wW=wW, wbackend=3), []] + gen.fill_prefix_w(wW, rng.randrange(wW)) + [[1, v, n], [3]],
                                      "dirty/W%d" % wW, fail_exact=True))
                cv = rng.getrandbits(n) if n else 0
                cases.append(Case([world_hdr(E, wW=wW, wbackend=3), []] + [[1, cv, n], [3]], "clean/W%d" % wW, fail_exact=True))
    ctx.corr(cases, builds=builds, what="C19 argument check")
    # clean explorations: identical across builds
    clean = []
    for c in gen.gen_C01(random.Random(ctx.seed + 1), "quick"):
        ok = True
        for op in c.groups[2:]:
            if op[0] == 1 and op[2] < 64 and op[1] >> op[2]:
                ok = False
        if ok and ctx.rng.random() < 0.3:
            clean.append(c)
    items = [it for it in code_items(ctx, dense=False) if ctx.rng.random() < 0.3]
    all_results = {}
    for b in builds:
        binary = ctx.harness(*b)
        if binary:
            all_results[b] = core.run_rust(binary, clean)
    ref_b = builds[0]
    for b in builds[1:]:
        if b in all_results and ref_b in all_results:
            for c, x, y in zip(clean, all_results[ref_b], all_results[b]):
                if x != y:
                    ctx.v.violation("results differ between builds %r and %r" % (ref_b, b),
                                    {"kind": "disagreement", "class_key": "build-diff", "case": c.line()[:2000], "builds": [list(map(str, ref_b)), list(map(str, b))]}, True)
                    break
    ctx.corr(clean, builds=builds, what="C19 clean writer runs")
    # in-domain code writes and copies never trip the check
    written = None
    wcases = []
    for it in items:
        ops = gen.fill_prefix_w(10 ** 6, it["off"]) if False else []
        wcases.append(Case([world_hdr(it["E"], wW=it["wW"], wbackend=3), []] + [[1, rng.getrandbits(min(57, it["off"])) if it["off"] else 0, min(57, it["off"])],
                                                                               [4, it["cid"], it["p"], it["wfl"], it["v"]], [3]],
                           "code-write/code%d" % it["cid"], fail_exact=True))

    def oracle(c, r):
        if any(g and g[0] == 2 for g in r):
            return "an in-domain code write panicked: %r" % (r,)
        return None
    ctx.corr(wcases, builds=builds, what="C19 library writes are clean", oracle=oracle)
    ccases = [c for c in _copy_cases(ctx, 300 if ctx.tier == "quick" else 3000)]
    ctx.corr(ccases, builds=builds, what="C19 copies are clean", oracle=oracle)


def _copy_cases(ctx, n):
    rng = ctx.rng
    out = []
    for _ in range(n):
        E = rng.randrange(2)
        rW = rng.choice(gen.WORDS_R)
        Wb = rW if rW else 64
        wW = rng.choice(gen.WORDS_W)
        fill = rng.randrange(2 * Wb if rW else 64)
        pname, data = rng.choice(gen.patterns(rng, 200))
        op = rng.choice([30, 31])
        ops = gen.reader_fill_prefix(rW, fill, rng) + gen.fill_prefix_w(wW, rng.randrange(wW)) + \
            [[op, rng.randrange(4 * max(Wb, wW))], [op, rng.randrange(100)], [10, 9], [3]]
        out.append(Case([world_hdr(E, wW=wW, rW=rW, wbackend=3), data] + ops, "copy/%s" % pname, fail_exact=True))
    return out


# =============================================================================== C04 (published definitions)
def check_C04(ctx):
    ctx.v.cov["rule"] = ("codes x parameters x values (C03 grid + every value < 2^12, thorough 2^16) written alone and between "
                         "sentinels; bytes compared with the published definition (CodeDefs.v, independent of the Rust control flow) "
                         "and with the L1/L2 models; both endiannesses, all writer words, table options")
    rng = ctx.rng
    cases = []
    dcases = []
    for (cid, p) in gen.code_params(rng, ctx.tier):
        if cid == 11:
            continue
        vals = gen.values_for(rng, cid, p, ctx.tier)
        if cid in (1, 2, 3, 12, 4, 5) or (cid in (6, 7, 9) and p <= 8):
            vals = sorted(set(vals) | set(range(1 << (9 if ctx.tier == "quick" else 14))))
        vals = [v for v in vals if gen.writable(cid, p, v)]
        if cid in (6, 12):
            # the property claims the published zeta_k codeword where 2^((h+1)k) fits in 64 bits
            k = p if cid == 6 else 3
            vals = [v for v in vals if (((v + 1).bit_length() - 1) // k + 1) * k <= 63]
        for E in (0, 1):
            for i in range(0, len(vals), 60):
                chunk = vals[i:i + 60]
                wW = rng.choice(gen.WORDS_W)
                fl = rng.choice(gen.flag_options(cid))
                ops = []
                for v in chunk:
                    ops.append([4, cid, p, fl, v])
                ops.append([3])
                cases.append(Case([world_hdr(E, wW=wW, wbackend=3), []] + ops, "codeword/code%d" % cid))
                dcases.append(Case([[12, E], []] + [[cid, p, v] for v in chunk], "def/code%d" % cid, levels=(2,)))
    rust = ctx.corr(cases, what="C04 codewords (models)")
    # published definitions from the model (scenario 12), concatenated, vs the implementation's bytes
    defs = core.run_model(ctx.driver, dcases, 2)
    for c, r, d in zip(cases, rust or [], defs):
        if not r or r[-1][0] != 99:
            continue
        bits = []
        bad = False
        for g in d:
            if not g or g[0] != 0:
                bad = True
                break
            nbits = g[1]
            by = g[2:]
            E = c.groups[0][1]
            for i in range(nbits):
                b = by[i // 8]
                bits.append((b >> (7 - i % 8)) & 1 if E == 0 else (b >> (i % 8)) & 1)
        if bad:
            continue
        want = bits_to_bytes(c.groups[0][1], bits)
        got = r[-1][1:1 + len(want)]
        rest = r[-1][1 + len(want):]
        if got != want or any(rest):
            ctx.v.violation("written bytes differ from the published definition (%s)" % c.tag,
                            {"kind": "disagreement", "class_key": c.tag, "case": c.line()[:3000],
                             "impl": " ".join("%02x" % x for x in r[-1][1:][:64]), "definition": " ".join("%02x" % x for x in want[:64])}, True)
            break
        ctx.v.cov["traces_validated_against_impl"] += 1


REGISTRY = {
    "C01": check_C01, "C02": check_C02, "C03": check_C03, "C04": check_C04, "C05": check_C05, "C06": check_C06,
    "C07": check_C07, "C08": check_C08, "C09": check_C09, "C10": check_C10, "C11": check_C11, "C12": check_C12,
    "C13": check_C13, "C14": check_C14, "C15": check_C15, "C16": check_C16, "C17": check_C17, "C18": check_C18,
    "C19": check_C19, "C20": check_C20,
}


def replay(prop, path, v):
    payload = json.load(open(path))
    if payload.get("kind") in ("broken-proof", "model-build", "harness-build"):
        coq = core.coq_property(prop)
        print(json.dumps({"theorems": coq["obligations"], "discharged": coq["discharged"], "failed_at": coq["failed_at"]}, indent=1))
        print(coq["log_tail"][-1500:])
        return 0 if coq["ok"] else 1
    line = payload.get("case")
    if not line:
        print(json.dumps(payload, indent=1))
        return 1
    groups = [[int(t, 16) for t in g.split()] for g in line.split(";")]
    c = Case(groups, payload.get("tag", "replay"), payload.get("fail_exact", False), tuple(payload.get("levels", (0, 2))), payload.get("wbackend", 0))
    driver, _ = core.build_driver()
    feats = tuple(payload.get("features", ()))
    binary, _ = core.build_harness(payload.get("profile", "debug"), feats)
    r = core.run_rust(binary, [c])[0]
    print("case : " + line)
    print("impl : " + ";".join(" ".join("%x" % x for x in g) for g in r))
    failing = False
    if payload.get("after_error"):
        f = set(payload.get("expected_errors", []))
        rl = payload["reduced_case"]
        rc = Case([[int(t, 16) for t in g.split()] for g in rl.split(";")], c.tag, False, c.levels, c.wbackend)
        nops = len(c.groups) - 2
        for k in sorted(f):
            if k >= len(r) or r[k] != [1]:
                print("  -> op %d must report an error, returned %r" % (k, r[k] if k < len(r) else None))
                failing = True
        for l in c.levels:
            m = core.run_model(driver, [rc], l, "checks" in feats, "no_copy_impls" in feats)[0]
            it = iter(m)
            exp = [[1] if k in f else next(it, []) for k in range(nops)] + list(it)
            print("L%d   : %s   (model run without the failed operations)" % (l, ";".join(" ".join("%x" % x for x in g) for g in exp)))
            msg = core.compare_case(c, r, exp, stop_at_err=False)
            if msg:
                print("  -> " + msg)
                failing = True
        return 1 if failing else 0
    for l in c.levels:
        m = core.run_model(driver, [c], l, "checks" in feats, "no_copy_impls" in feats)[0]
        print("L%d   : %s" % (l, ";".join(" ".join("%x" % x for x in g) for g in m)))
        msg = core.compare_case(c, r, m)
        if msg:
            print("  -> " + msg)
            failing = True
    if payload.get("oracle"):
        print("oracle at the time of the report: " + payload["oracle"])
    return 1 if failing else 0
